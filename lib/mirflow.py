"""Wiring / exit-code / report checks on MIR (engine: mirexec.Exec; z3 + cvc5).

These decide, for the I/O-side functions no Kani harness can enter, how callee results flow: which rules file and
which document an evaluation scope is built from, how per-evaluation statuses fold into exit codes, and how rule
records are sorted into the report's sets. Callees are modelled by symbolic results; value identity (the same
opaque value reaching two places) is tracked by the executor.
"""
import json, os, re
import mirsmt, mirexec
from mirsmt import Untranslatable, pc_term
from miragg import calls, ret_ok_status
from mirblocks import enum_variants, struct_fields, disc, field, payload, iterations, m_result_opq, unary_empty_on_expr

RC_NEW = "re:(?:^|::)Rc::<.*>::new$"


def m_scope(ex, argv):
    return ex.opq()


def consts(a):
    c = mirsmt.consts_of(a.mir)
    for k in ("SUCCESS_STATUS_CODE", "ERROR_STATUS_CODE", "FAILURE_STATUS_CODE"):
        if k not in c:
            raise Untranslatable(f"const {k} not found")
    return c["SUCCESS_STATUS_CODE"], c["ERROR_STATUS_CODE"], c["FAILURE_STATUS_CODE"]


# --------------------------------------------------------------------------------------------------
# validate (plain mode): the loop of Validate::execute that folds per-rules-file codes into the exit code.
# One inductive step from an arbitrary state: region = from the evaluate_rule call to the next one (or to return).
# --------------------------------------------------------------------------------------------------
def m_result_code(ex, argv):
    return ex.fresh_result(ex.fresh_int("i32", "code"), "evr")


def validate_execute_step(a):
    OK, ERR, FAILC = consts(a)
    fre = r"commands::validate::<impl at guard/src/commands/validate\.rs:\d+:\d+: \d+:\d+>::execute"
    text = mirsmt.find_fn(a.mir, fre)
    hdr, locs, blocks = mirsmt.parse_fn(text)
    sites = [bb for bb, sts in blocks.items() if any(re.search(r"= evaluate_rule\(", st) for st in sts)]
    m = re.search(r"debug exit_code => (_\d+);", text)
    if not sites or not m:
        raise Untranslatable("Validate::execute: no evaluate_rule call site / no exit_code local")
    ec = m.group(1)
    a.fns.append("commands::validate::Validate::execute (per-rules-file exit-code fold, one step)")
    for bb in sites:
        mm = dict(mirexec.COMMON_MODELS)
        mm.update({"evaluate_rule": m_result_code, "next": mirexec.m_option, "write_err": mirexec.m_result_unit})
        ex = mirexec.Exec(text, a.enums, mirsmt.consts_of(a.mir), mm, set(), unroll=1, mir=a.mir, max_paths=20000)
        e0 = ex.fresh_int("i32", "exit0")
        s19, s5 = ex.fresh("Bool", "seen19"), ex.fresh("Bool", "seen5")

        def inv(e, x19, x5):
            return (f"(and (or (= {e} {OK}) (= {e} {ERR}) (= {e} {FAILC})) (= (= {e} {OK}) (and (not {x19}) (not {x5}))) "
                    f"(=> (and {x19} (not {x5})) (= {e} {FAILC})) (=> (and {x5} (not {x19})) (= {e} {ERR})))")
        ex.side.append(inv(e0[1], s19, s5))
        ex.run_from(bb, stop_blocks={bb}, init_env={ec: e0})
        a.npaths += len(ex.paths)
        bad = []
        for p in ex.paths:
            cs = calls(p, "evaluate_rule")
            if len(cs) != 1:
                bad.append(pc_term(p.pc))
                continue
            ctag, code = cs[0][3][2], cs[0][3][3]["Ok"][1]
            dom = f"(or (= {code} {OK}) (= {code} {ERR}) (= {code} {FAILC}))"
            n19, n5 = f"(or {s19} (= {code} {FAILC}))", f"(or {s5} (= {code} {ERR}))"
            if p.outcome.startswith("stop"):
                e1 = p.env.get(ec)
                good = inv(e1[1], n19, n5) if e1 and e1[0] == "int" else "false"
                bad.append(f"(and {pc_term(p.pc)} {dom} (not (and (= {ctag} 0) {good})))")
            elif p.outcome == "return":
                r = p.ret
                if r and r[0] == "enum" and r[1] == "Result":
                    okv = r[3].get("Ok")
                    good_ok = inv(okv[1], n19, n5) if okv and okv[0] == "int" else "false"
                    # Err only if a callee failed (evaluate_rule or writer / iterator errors): not constrained further
                    bad.append(f"(and {pc_term(p.pc)} {dom} (= {r[2]} 0) (not (and (= {ctag} 0) {good_ok})))")
                else:
                    bad.append(pc_term(p.pc))
        c = a.discharge(f"Validate::execute/{bb}/exit-code-step", ex, bad,
                    f"plain validate, the loop over rules files, one step from an arbitrary state (call site {bb}): if before the step the "
                    f"exit code e satisfies [e = {OK} iff no file failed or errored; only FAILs seen -> {FAILC}; only parse errors seen -> {ERR}] "
                    f"then it does so after folding in one more per-file code in {{{OK},{ERR},{FAILC}}}, both when the loop continues and when "
                    "the function returns Ok(e)")
        if c:
            c["replay"] = replay_exit_codes(a)
            c["reproduced"] = c["replay"].get("reproduced", False)
            a.candidates.append(c)


def replay_exit_codes(a, structured=False, fmt="json"):
    """plain `validate` over sequences of <= 3 rules files (PASS / FAIL / SKIP / syntactically broken / comment-only) on one document, as
    files and as a --payload document: exit 0 iff nothing failed or errored, 19 if all parse and one FAILs, 5 if one does
    not parse and nothing FAILs, non-zero otherwise; a rules file whose evaluation is an ERROR gives an exit code that is neither 0 nor 19"""
    import itertools, json, os, shutil, subprocess, tempfile
    exe = a.cli()
    if not exe:
        return {"reproduced": False, "note": "native build failed"}
    texts = {"P": "rule p { a == 1 }\n", "F": "rule f { a == 2 }\n", "S": "rule s when a == 2 { a == 1 }\n", "B": "rule b { a == }\n",
             "E": "# nothing but a comment\n",
             "X": "let v = parse_int(s)\nrule x { %v == 1 }\n"}          # parses, but evaluating it is an error (s is not a number)
    data = '{"a": 1, "s": "abc"}\n'
    d = tempfile.mkdtemp(prefix="cfnverif_replay_")
    out = []
    try:
        open(os.path.join(d, "d.json"), "w").write(data)
        for k, t in texts.items():
            open(os.path.join(d, f"{k}.guard"), "w").write(t)
        seqs = [s for n in (1, 2, 3) for s in itertools.product("PFSBE", repeat=n)]
        seqs += [s for n in (1, 2, 3) for s in itertools.product("PFSBX", repeat=n) if "X" in s]
        for seq in seqs:
            exp = ("error" if "X" in seq else
                   "zero" if not set(seq) & {"F", "B"} else "19" if "B" not in seq else "5" if "F" not in seq else "nonzero")
            for mode in ("files", "payload"):
                if mode == "files":
                    cmd = [exe, "validate", "-d", os.path.join(d, "d.json"), "--show-summary", "none"]
                    for i, k in enumerate(seq):
                        # the same rules file may not be given twice under one name: copy
                        f = os.path.join(d, f"{i}_{k}.guard")
                        shutil.copy(os.path.join(d, f"{k}.guard"), f)
                        cmd += ["-r", f]
                    inp = None
                else:
                    cmd = [exe, "validate", "--payload", "--show-summary", "none"]
                    inp = json.dumps({"rules": [texts[k] for k in seq], "data": [data]})
                if structured:
                    cmd += ["--structured", "-o", fmt]
                pr = subprocess.run(cmd, input=inp, stdout=subprocess.PIPE, stderr=subprocess.PIPE, text=True, timeout=120)
                rc = pr.returncode
                ok = {"zero": rc == 0, "19": rc == 19, "5": rc == 5, "nonzero": rc != 0, "error": rc not in (0, 19)}[exp]
                if not ok:
                    out.append({"rules_files": [texts[k] for k in seq], "mode": mode, "expected_exit": exp, "observed_exit": rc})
        return {"reproduced": bool(out), "mismatches": out[:5], "document": data, "sequences_tried": len(seqs) * 2}
    finally:
        shutil.rmtree(d, ignore_errors=True)


def replay_junit_suites(a):
    """validate --structured -o junit over several data files: the <testsuite> of a data file (its name, tests / failures / errors counts and
    the status of its test cases) is the one that file gets when validated alone, wherever it stands in the run; the <testsuites> totals are
    the sums"""
    import os, re as _re, shutil, subprocess, tempfile
    exe = a.cli()
    if not exe:
        return {"reproduced": False, "note": "native build failed"}
    d = tempfile.mkdtemp(prefix="cfnverif_replay_")
    out = []
    try:
        open(os.path.join(d, "r1.guard"), "w").write("rule one { a == 1 }\nrule sk when a == 9 { a == 1 }\n")
        open(os.path.join(d, "r2.guard"), "w").write("rule two { b == 1 }\n")
        docs = {"good.json": '{"a": 1, "b": 1}\n', "bad.json": '{"a": 2, "b": 1}\n', "worse.json": '{"a": 2, "b": 2}\n'}
        for k, t in docs.items():
            open(os.path.join(d, k), "w").write(t)

        def run(names):
            cmd = [exe, "validate", "-r", os.path.join(d, "r1.guard"), "-r", os.path.join(d, "r2.guard"), "--structured", "-o", "junit", "--show-summary", "none"]
            for n in names:
                cmd += ["-d", os.path.join(d, n)]
            pr = subprocess.run(cmd, capture_output=True, text=True, timeout=60)
            suites = {}
            for m in _re.finditer(r"<testsuite\b([^>]*)>(.*?)</testsuite>", pr.stdout, _re.S):
                at = dict(_re.findall(r'(\w+)="([^"]*)"', m.group(1)))
                cases = sorted((dict(_re.findall(r'(\w+)="([^"]*)"', c.group(1))).get("name"), "failure" if "<failure" in c.group(2) or "<failure" in c.group(0) else
                                ("error" if "<error" in c.group(0) else "ok"))
                               for c in _re.finditer(r"<testcase\b([^>]*?)(/>|>.*?</testcase>)", m.group(2), _re.S))
                suites[os.path.basename(at.get("name", ""))] = (at.get("tests"), at.get("failures"), at.get("errors"), tuple(cases))
            tot = _re.search(r"<testsuites\b([^>]*)>", pr.stdout)
            totals = dict(_re.findall(r'(\w+)="([^"]*)"', tot.group(1))) if tot else {}
            return pr.returncode, suites, totals
        alone = {}
        for k in docs:
            rc, suites, totals = run([k])
            if k not in suites:
                return {"reproduced": False, "note": "singleton run gave no testsuite", "exit": rc}
            alone[k] = suites[k]
        for order in (["good.json", "bad.json"], ["bad.json", "good.json"], ["worse.json", "good.json", "bad.json"], ["bad.json", "worse.json", "good.json"]):
            rc, suites, totals = run(order)
            for k in order:
                if suites.get(k) != alone[k]:
                    out.append({"order": order, "data_file": k, "testsuite_alone (tests, failures, errors, cases)": str(alone[k]), "in_this_run": str(suites.get(k))})
            want_f = sum(int(alone[k][1] or 0) for k in order)
            if totals.get("failures") is not None and int(totals["failures"]) != want_f:
                out.append({"order": order, "problem": f"<testsuites failures={totals.get('failures')}>, the files alone sum to {want_f}"})
            if rc != 19:
                out.append({"order": order, "problem": f"exit {rc}, a data file FAILs"})
        return {"reproduced": bool(out), "mismatches": out[:4]}
    finally:
        shutil.rmtree(d, ignore_errors=True)


def junit_report(a):
    """JUnit path: the per-pair closure (counters) and the report function (counters -> exit code)"""
    OK, ERR, FAILC = consts(a)
    TCS = enum_variants(a.src, "commands/reporters/mod.rs", "TestCaseStatus")
    TC = struct_fields(a.src, "commands/reporters/mod.rs", "TestCase")
    XML = r"xml::<impl at guard/src/commands/reporters/validate/xml\.rs:\d+:\d+: \d+:\d+>::report"
    # --- closure: one (document, rules file) pair
    ex = a.exec(XML + r"::\{closure#0\}", {"get_test_case": m_result_opq}, log=("push",), unroll=1, max_paths=2000)
    a.fns.append("commands::reporters::validate::xml::JunitReporter::report::{closure#0}")
    envv, acc, pair = ex.arg_env["_1"], ex.arg_env["_2"], ex.arg_env["_3"]
    each = field(ex, envv, 0, "&&DataFile")
    f0, e0, t0 = (field(ex, envv, i, "&mut usize") for i in (1, 2, 3))
    bad = []
    for p in ex.paths:
        r = p.ret
        gt = calls(p, "get_test_case")
        if p.outcome != "return" or not r or r[0] != "enum" or len(gt) != 1:
            # the only panic allowed: counter overflow at usize::MAX
            bad.append(f"(and {pc_term(p.pc)} (< {f0[1]} 18446744073709551615) (< {e0[1]} 18446744073709551615) (< {t0[1]} 18446744073709551615))"
                       if p.outcome == "panic" and f0[0] == "int" else pc_term(p.pc))
            continue
        wired = (same(gt[0][2][0], each) and same(gt[0][2][1], field(ex, pair, 0, "RulesFile")) and same(gt[0][2][2], field(ex, pair, 1, "&str")))
        tc = gt[0][3][3]["Ok"]
        st = disc(ex, field(ex, tc, TC.index("status"), "TestCaseStatus"))
        stores = p.env.get("$stores") or {}

        def final(v, idx):
            s_ = stores.get((envv[1], f".{idx}"))
            return s_[1] if s_ and s_[0] == "int" else v[1]
        f1, e1, t1 = final(f0, 1), final(e0, 2), final(t0, 3)
        pushes = [e for e in calls(p, "push") if len(e[2]) == 2]
        ok_push = len(pushes) == 1 and same(pushes[0][2][0], acc) and same(pushes[0][2][1], tc)
        good_ok = (f"(and (= {gt[0][3][2]} 0) (= {f1} (+ {f0[1]} (ite (= {st} {TCS.index('Fail')}) 1 0))) "
                   f"(= {e1} (+ {e0[1]} (ite (= {st} {TCS.index('Error')}) 1 0))) (= {t1} (+ {t0[1]} 1)))") if (ok_push and wired and f0[0] == "int") else "false"
        good = f"(ite (= {r[2]} 0) {good_ok} (= {gt[0][3][2]} 1))"
        bad.append(f"(and {pc_term(p.pc)} (not {good}))")
    c1 = a.discharge("junit/report-closure/counters", ex, bad,
                "JUnit path, one pair: the test case is built from THIS document and THIS rules file; `failures` is incremented iff the "
                     "case is marked Fail, `errors` iff Error, `tests` always; the case is appended; an evaluation error is passed on")
    # --- report(): counters -> exit code
    jr = struct_fields(a.src, "commands/reporters/mod.rs", "JunitReporter")

    def m_update(ex, argv):
        return ex.opq()
    ex = a.exec(XML, {"try_fold": m_result_opq, "update_exit_code": m_update, "serialize": mirexec.m_result_unit,
                      "next": mirexec.m_iter_next, "into_iter": mirexec.m_new_iter, "iter": mirexec.m_new_iter,
                      "default": lambda ex, av: ex.opq(), "to_string": mirexec.m_identity, "new": lambda ex, av: ex.opq(),
                      "elapsed": lambda ex, av: ex.opq(), "as_millis": lambda ex, av: ex.opq(), "now": lambda ex, av: ex.opq()},
                log=("push",), unroll=1, max_paths=20000, first_arg_re=r"_1: &mut (?:reporters::)?JunitReporter")
    a.fns.append("commands::reporters::validate::xml::JunitReporter::report")
    me = ex.arg_env["_1"]
    bad = []
    for p in ex.paths:
        r = p.ret
        if p.outcome == "panic":
            continue            # counter additions at usize::MAX
        if not r or r[0] != "enum":
            bad.append(pc_term(p.pc))
            continue
        ups = calls(p, "update_exit_code")
        tf = calls(p, "try_fold")
        # the totals the function branched on: debug names total_errors / total_failures
        te = p.env.get(ex.debug_names.get("total_errors", ""))
        tfail = p.env.get(ex.debug_names.get("total_failures", ""))
        if not te or not tfail or te[0] != "int" or tfail[0] != "int":
            bad.append(pc_term(p.pc))
            continue
        okv = r[3].get("Ok")
        if r[2] == "0" or (okv is not None):
            codes = [u[2][1] for u in ups if len(u[2]) == 2]
            want_err = f"(> {te[1]} 0)"
            want_fail = f"(and (not (> {te[1]} 0)) (> {tfail[1]} 0))"
            if len(ups) == 1 and codes[0] == ("int", str(ERR)):
                good = want_err
            elif len(ups) == 1 and codes[0] == ("int", str(FAILC)):
                good = want_fail
            elif not ups:
                good = f"(and (not {want_err}) (not {want_fail}))"
            else:
                good = "false"
            ok_ret = okv is not None and same(okv, field(ex, me, jr.index("exit_code"), "i32"))
            bad.append(f"(and {pc_term(p.pc)} (= {r[2]} 0) (not {good if ok_ret else 'false'}))")
    c2 = a.discharge("junit/report/totals-to-exit-code", ex, bad,
                     "JUnit path, <= 1 document: update_exit_code(ERROR) iff the error total is > 0, update_exit_code(FAILURE) iff it is 0 and "
                     "the failure total is > 0, neither otherwise; the value returned is the reporter's exit code field")
    for c in (c1, c2):
        if c:
            c["replay"] = replay_exit_codes(a, structured=True, fmt="junit")
            if not c["replay"].get("reproduced"):
                r2 = replay_junit_suites(a)
                if r2.get("reproduced"):
                    c["replay"] = r2
            c["reproduced"] = c["replay"].get("reproduced", False)
            a.candidates.append(c)


def structured_parse_closure(a):
    """--structured: parsing the rules files (try_fold closure): a parse error sets the exit code to ERROR and the file is
    skipped; a parsed file is appended with its own name; an empty file is skipped silently"""
    OK, ERR, FAILC = consts(a)
    SE = struct_fields(a.src, "commands/reporters/validate/structured.rs", "StructuredEvaluator")
    RFI = struct_fields(a.src, "commands/validate.rs", "RuleFileInfo")

    def m_parse(ex, argv):
        return ex.fresh_result(ex.fresh_enum("Option", 2, "parsed", {"Some": ex.opq()}), "parse")
    ex = a.exec(r"reporters::validate::structured::<impl at guard/src/commands/reporters/validate/structured\.rs:\d+:\d+: \d+:\d+>::evaluate::\{closure#0\}",
                {"parse_rules": m_parse, "write_err": mirexec.m_result_unit, "underline": lambda ex, av: ex.opq()},
                log=("push",), unroll=1, max_paths=2000)
    a.fns.append("commands::reporters::validate::structured::StructuredEvaluator::evaluate::{closure#0}")
    envv, acc, info = ex.arg_env["_1"], ex.arg_env["_2"], ex.arg_env["_3"]
    me = field(ex, envv, 0, "&mut &mut StructuredEvaluator")
    key = (me[1], f".{SE.index('exit_code')}") if me[0] == "opaque" else None
    code0 = field(ex, me, SE.index("exit_code"), "i32")
    bad = []
    for p in ex.paths:
        r = p.ret
        pr = calls(p, "parse_rules")
        if p.outcome != "return" or not r or r[0] != "enum" or len(pr) != 1:
            bad.append(pc_term(p.pc))
            continue
        ptag, otag = pr[0][3][2], pr[0][3][3]["Ok"][2]
        parsed = pr[0][3][3]["Ok"][3].get("Some")
        args_ok = same(pr[0][2][0], field(ex, info, RFI.index("content"), "String")) and same(pr[0][2][1], field(ex, info, RFI.index("file_name"), "String"))
        st = (p.env.get("$stores") or {}).get(key)
        code1 = st[1] if st and st[0] == "int" else code0[1]
        pushes = [e for e in calls(p, "push") if len(e[2]) == 2]
        if pushes:
            tup = pushes[0][2][1]
            okp = (len(pushes) == 1 and same(pushes[0][2][0], acc) and tup[0] == "tuple" and same(tup[1][0], parsed)
                   and same(tup[1][1], field(ex, info, RFI.index("file_name"), "String")))
            good = f"(and (= {ptag} 0) (= {otag} 1) (= {code1} {code0[1]}) (= {r[2]} 0))" if okp else "false"
        else:
            werr = "(or false " + " ".join(f"(= {e[3][2]} 1)" for e in calls(p, "write_err") if e[3][0] == "enum") + ")"
            good = (f"(or (and (= {ptag} 1) (or (and (= {r[2]} 0) (= {code1} {ERR})) {werr})) "
                    f"(and (= {ptag} 0) (= {otag} 0) (= {r[2]} 0) (= {code1} {code0[1]})))")
        bad.append(f"(and {pc_term(p.pc)} (not {good if args_ok else 'false'}))")
    c = a.discharge("structured/parse-closure", ex, bad,
                    f"--structured, one rules file: parsed from its own content under its own name; a parse error sets the exit code to "
                    f"{ERR} and the file is left out; an empty rules file is left out without touching the exit code; a parsed file is "
                    "appended with its own name")
    if c:
        c["replay"] = replay_exit_codes(a, structured=True)
        c["reproduced"] = c["replay"].get("reproduced", False)
        a.candidates.append(c)


def opt_some(v):
    return v[3].get("Some") if (v and v[0] == "enum" and v[1] == "Option") else None


def same(a, b):
    return a is not None and b is not None and a == b


def pair_wiring(ex, p, rule_of, data_of, name_of):
    """python-level structural facts of a path: every eval_rules_file call uses the scope built by the root_scope call
    just before it, from the same rules value, and that scope was built from the current document.
    Returns a list of problems (strings); empty = wired correctly on this path."""
    probs = []
    scopes = calls(p, "root_scope")
    evals = calls(p, "eval_rules_file")
    if len(scopes) < len(evals):
        probs.append("an evaluation without a scope of its own")
    for i, ev in enumerate(evals):
        if i >= len(scopes):
            break
        sc = scopes[i]
        if not same(ev[2][1], sc[3]):
            probs.append("eval_rules_file does not use the scope created for this pair")
        if not same(ev[2][0], sc[2][0]):
            probs.append("scope and evaluation use different rules files")
        r, d = rule_of(i), data_of(i)
        if r is not None and not same(ev[2][0], r):
            probs.append("evaluation is not of the current rules file")
        if d is not None and not same(sc[2][1], d):
            probs.append("scope root is not the current document")
        n = name_of(i)
        if n is not None and len(ev[2]) > 2 and not same(opt_some(ev[2][2]), n):
            probs.append("evaluation is labelled with another document's name")
    # a scope is never shared by two evaluations
    ids = [sc[3] for sc in scopes]
    if len(set(map(str, ids))) != len(ids):
        probs.append("scope reused")
    return probs


# --------------------------------------------------------------------------------------------------
# validate --structured (json / yaml / sarif): CommonStructuredReporter::report
# --------------------------------------------------------------------------------------------------
def structured_report(a):
    OK, ERR, FAILC = consts(a)
    rep = struct_fields(a.src, "commands/reporters/validate/structured.rs", "CommonStructuredReporter")
    df = struct_fields(a.src, "commands/validate.rs", "DataFile")
    ex = a.exec(r"reporters::validate::structured::<impl at guard/src/commands/reporters/validate/structured\.rs:\d+:\d+: \d+:\d+>::report",
                {"root_scope": m_scope, "eval_rules_file": mirexec.m_result_status, "simplified_json_from_root": m_result_opq,
                 "next": mirexec.m_iter_next, "into_iter": mirexec.m_new_iter, "iter": mirexec.m_new_iter, RC_NEW: mirexec.m_identity,
                 "to_writer": mirexec.m_result_unit, "to_writer_pretty": mirexec.m_result_unit, "default": lambda ex, av: ex.opq()},
                log=("combine", "push"), unroll=2, max_paths=60000)
    a.fns.append("commands::reporters::validate::structured::CommonStructuredReporter::report")
    me = ex.arg_env["_1"]
    rules_v = field(ex, me, rep.index("rules"), "Vec")
    data_v = field(ex, me, rep.index("data"), "Vec")
    code0 = field(ex, me, rep.index("exit_code"), "i32")[1]
    OF = enum_variants(a.src, "commands/validate.rs", "OutputFormatType")
    out_d = disc(ex, field(ex, me, rep.index("output"), "OutputFormatType"))
    bad, nwired = [], 0
    for p in ex.paths:
        r = p.ret
        if p.outcome == "panic":
            # `_ => unreachable!()`: this reporter is only built for json / yaml / sarif
            handled = "(or " + " ".join(f"(= {out_d} {OF.index(k)})" for k in ("JSON", "YAML", "Sarif")) + ")"
            bad.append(f"(and {pc_term(p.pc)} {handled})")
            continue
        if not r or r[0] != "enum" or r[1] != "Result":
            bad.append(pc_term(p.pc))
            continue
        evals = calls(p, "eval_rules_file")
        outer = iterations(ex, p, it_filter=lambda ev: ex.iter_src.get(ev[2][0][1], ev[2][0]) == data_v)
        inner = iterations(ex, p, it_filter=lambda ev: ex.iter_src.get(ev[2][0][1], ev[2][0]) == rules_v)
        # which (document, rules file) pair is current at the i-th evaluation: walk the events
        cur_d, cur_r, pairs = None, None, []
        o_idx = {i: el for _k, el, _t, i in outer}
        i_idx = {i: el for _k, el, _t, i in inner}
        for i, e in enumerate(p.events):
            if i in o_idx:
                cur_d = o_idx[i]
            if i in i_idx:
                cur_r = i_idx[i]
            if e[0] == "call" and e[1] == "eval_rules_file":
                pairs.append((cur_d, cur_r))

        def rule_of(i):
            el = pairs[i][1] if i < len(pairs) else None
            return field(ex, el, 0, "RulesFile") if el is not None and el[0] == "opaque" else None

        def data_of(i):
            el = pairs[i][0] if i < len(pairs) else None
            return field(ex, el, df.index("path_value"), "PathAwareValue") if el is not None and el[0] == "opaque" else None

        def name_of(i):
            el = pairs[i][0] if i < len(pairs) else None
            return field(ex, el, df.index("name"), "String") if el is not None and el[0] == "opaque" else None
        probs = pair_wiring(ex, p, rule_of, data_of, name_of)
        # every evaluated pair's report is combined, once
        sj = calls(p, "simplified_json_from_root")
        comb = calls(p, "combine")
        for j, c in enumerate(comb):
            if j >= len(sj) or not same(c[2][1], sj[j][3][3]["Ok"]):
                probs.append("combine() does not receive the report of the pair just evaluated")
        nwired += len(evals)
        callee_err = [f"(= {e[3][2]} 1)" for e in evals + sj + calls(p, "to_writer") + calls(p, "to_writer_pretty") if e[3][0] == "enum"]
        some_err = "(or false " + " ".join(callee_err) + ")"
        anyfail = "(or false " + " ".join(f"(and (= {e[3][2]} 0) (= {e[3][3]['Ok'][2]} {a.F}))" for e in evals) + ")"
        okv = r[3].get("Ok")
        if okv is not None and okv[0] == "int":
            n_it = "(+ 0 0 " + " ".join(f"(ite (= {t} 1) 1 0)" for _k, _e, t, _i in inner) + ")"
            complete = f"(and (= {n_it} {len(evals)}) (= {len(comb)} {len(evals)}))"
            good_ok = f"(and (not {some_err}) (= {okv[1]} (ite {anyfail} {FAILC} {code0})) {complete})"
        else:
            good_ok = "false"
        good = f"(ite (= {r[2]} 0) {good_ok} {some_err})"
        if probs:
            good = "false"
        bad.append(f"(and {pc_term(p.pc)} (not {good}))")
    c = a.discharge("structured-report/pairs-and-exit-code", ex, bad,
                    f"validate --structured, <= 2 documents x <= 2 rules files ({nwired} evaluations over all paths): every (document, "
                    "rules file) pair is evaluated once, in a scope built by root_scope from exactly that rules file and that document "
                    "(no scope is reused or shared), its report is the one combined into the document's report; the exit code is "
                    f"{FAILC} iff some evaluation was FAIL, else the code carried in (parse errors); Err only from a callee")
    if c:
        c["replay"] = replay_batch(a)
        if not c["replay"].get("reproduced"):
            c["replay"] = replay_exit_codes(a, structured=True)
        c["reproduced"] = c["replay"].get("reproduced", False)
        a.candidates.append(c)


def replay_batch(a):
    """batch vs singleton runs: two rules files sharing variable and rule names x two documents"""
    import json, os, shutil, subprocess, tempfile
    exe = a.cli()
    if not exe:
        return {"reproduced": False, "note": "native build failed"}
    rules = ["let v = a\nrule r { %v == 1 }\nrule s when a == 1 { b exists }\n",
             "let v = b\nrule r { %v == 2 }\nrule q {\n  r\n}\n"]
    datas = ['{"a": 1,\n "b": 2}\n', '{"a": 2,\n "b": 1}\n', '{"a": 1,\n "b": 1}\n']
    d = tempfile.mkdtemp(prefix="cfnverif_replay_")
    out = []
    try:
        rf, dfs = [], []
        for i, t in enumerate(rules):
            f = os.path.join(d, f"r{i}.guard")
            open(f, "w").write(t)
            rf.append(f)
        for i, t in enumerate(datas):
            f = os.path.join(d, f"d{i}.json")
            open(f, "w").write(t)
            dfs.append(f)

        def run(rs, ds, fmt="json"):
            cmd = [exe, "validate", "--structured", "-o", fmt, "--show-summary", "none"]
            for r_ in rs:
                cmd += ["-r", r_]
            for d_ in ds:
                cmd += ["-d", d_]
            p = subprocess.run(cmd, stdout=subprocess.PIPE, stderr=subprocess.PIPE, text=True, timeout=120)
            try:
                return p.returncode, json.loads(p.stdout)
            except Exception:
                return p.returncode, None

        def norm(rep):
            return {"status": rep.get("status"), "compliant": sorted(rep.get("compliant", [])),
                    "not_applicable": sorted(rep.get("not_applicable", [])),
                    "not_compliant": sorted(x["Rule"]["name"] for x in rep.get("not_compliant", []) if "Rule" in x)}
        singles, any_fail = {}, False
        for di, df_ in enumerate(dfs):
            for ri, r_ in enumerate(rf):
                rc, rep = run([r_], [df_])
                if not rep:
                    return {"reproduced": False, "note": "singleton run gave no report", "exit": rc}
                singles[(di, ri)] = norm(rep[0])
                any_fail = any_fail or singles[(di, ri)]["status"] == "FAIL"
        for order_r in ([0, 1], [1, 0]):
            for order_d in ([0, 1, 2], [2, 1, 0]):
                rc, rep = run([rf[i] for i in order_r], [dfs[i] for i in order_d])
                if not rep or len(rep) != len(order_d):
                    out.append({"order": [order_r, order_d], "problem": "no / short report", "exit": rc})
                    continue
                if rc != (19 if any_fail else 0):
                    out.append({"order": [order_r, order_d], "problem": f"exit code {rc}"})
                for pos, di in enumerate(order_d):
                    if os.path.basename(rep[pos].get("name", "")) != f"d{di}.json":
                        out.append({"order": [order_r, order_d], "document": di, "problem": "report carries another document's name: " + str(rep[pos].get("name"))})
                    got = norm(rep[pos])
                    exp = {"compliant": sorted(set(sum((singles[(di, ri)]["compliant"] for ri in order_r), []))),
                           "not_applicable": sorted(set(sum((singles[(di, ri)]["not_applicable"] for ri in order_r), []))),
                           "not_compliant": sorted(sum((singles[(di, ri)]["not_compliant"] for ri in order_r), []))}
                    sts = [singles[(di, ri)]["status"] for ri in order_r]
                    exp["status"] = "FAIL" if "FAIL" in sts else ("PASS" if "PASS" in sts else "SKIP")
                    if got != exp:
                        out.append({"order": [order_r, order_d], "document": di, "expected_union_of_singletons": exp, "observed": got})
        return {"reproduced": bool(out), "mismatches": out[:4], "rules_files": rules, "documents": datas}
    finally:
        shutil.rmtree(d, ignore_errors=True)


# --------------------------------------------------------------------------------------------------
# plain validate: evaluate_against_data_input - one scope per document
# --------------------------------------------------------------------------------------------------
def data_input_wiring(a):
    df = struct_fields(a.src, "commands/validate.rs", "DataFile")
    ex = a.exec(r"(?:commands::validate::)?evaluate_against_data_input",
                {"root_scope": m_scope, "eval_rules_file": mirexec.m_result_status, "is_empty": lambda ex, av: ("bool", "true"),
                 "report_eval": mirexec.m_result_unit, "next": mirexec.m_iter_next, "into_iter": mirexec.m_new_iter,
                 "iter": mirexec.m_new_iter, RC_NEW: mirexec.m_identity, "from": lambda ex, av: ex.opq()},
                init_env={"_7": ("bool", "false"), "_8": ("bool", "false"), "_3": ("enum", "Option", "0", {})},
                unroll=2, max_paths=40000)
    a.fns.append("commands::validate::evaluate_against_data_input (scope per document)")
    rules = ex.arg_env["_5"]
    files = ex.arg_env["_4"]
    bad, n = [], 0
    for p in ex.paths:
        its = iterations(ex, p, it_filter=lambda ev: ex.iter_src.get(ev[2][0][1], ev[2][0]) == files)
        idx = {i: el for _k, el, _t, i in its}
        cur, per = None, []
        for i, e in enumerate(p.events):
            if i in idx:
                cur = idx[i]
            if e[0] == "call" and e[1] == "eval_rules_file":
                per.append(cur)
        n += len(per)

        def fld(i, name, ty):
            el = per[i] if i < len(per) else None
            return field(ex, el, df.index(name), ty) if el is not None and el[0] == "opaque" else None
        probs = pair_wiring(ex, p, lambda i: rules, lambda i: fld(i, "path_value", "PathAwareValue"), lambda i: fld(i, "name", "String"))
        evals = calls(p, "eval_rules_file")
        n_it = "(+ 0 0 " + " ".join(f"(ite (= {t} 1) 1 0)" for _k, _e, t, _i in its) + ")"
        anyerr = "(or false " + " ".join(f"(= {e[3][2]} 1)" for e in evals + calls(p, "report_eval") if e[3][0] == "enum") + ")"
        rtag, _rst = ret_ok_status(p)
        complete = f"(=> (= {rtag} 0) (and (not {anyerr}) (= {n_it} {len(evals)})))" if rtag is not None else "false"
        good = "false" if probs else complete
        bad.append(f"(and {pc_term(p.pc)} (not {good}))")
    c = a.discharge("evaluate_against_data_input/scope-per-document", ex, bad,
                    f"plain validate, one rules file x <= 2 documents, no input parameters ({n} evaluations over all paths): every "
                    "document is evaluated exactly once in a fresh scope built from the rules file and that document, labelled with that "
                    "document's name; no scope is reused")
    if c:
        c["replay"] = replay_batch_plain(a)
        c["reproduced"] = c["replay"].get("reproduced", False)
        a.candidates.append(c)


def replay_batch_plain(a):
    """plain `validate -o json` prints one report per (rules file, document) pair: the batch run must print, for every
    pair, what the singleton run of that pair prints, and exit 19 iff some pair FAILs"""
    import json, os, shutil, subprocess, tempfile
    exe = a.cli()
    if not exe:
        return {"reproduced": False, "note": "native build failed"}
    rules = ["let v = a\nrule r { %v == 1 }\nrule s when a == 1 { b exists }\n",
             "let v = b\nrule r { %v == 2 }\nrule q {\n  r\n}\n"]
    datas = ['{"a": 1,\n "b": 2}\n', '{"a": 2,\n "b": 1}\n', '{"a": 1,\n "b": 1}\n']
    d = tempfile.mkdtemp(prefix="cfnverif_replay_")
    try:
        rf, dfs = [], []
        for i, t in enumerate(rules):
            rf.append(os.path.join(d, f"r{i}.guard"))
            open(rf[-1], "w").write(t)
        for i, t in enumerate(datas):
            dfs.append(os.path.join(d, f"d{i}.json"))
            open(dfs[-1], "w").write(t)

        def run(rs, ds):
            cmd = [exe, "validate", "-o", "json", "--show-summary", "none"]
            for r_ in rs:
                cmd += ["-r", r_]
            for d_ in ds:
                cmd += ["-d", d_]
            p = subprocess.run(cmd, stdout=subprocess.PIPE, stderr=subprocess.PIPE, text=True, timeout=120)
            objs, dec, txt, i = [], json.JSONDecoder(), p.stdout, 0
            try:
                while i < len(txt):
                    while i < len(txt) and txt[i].isspace():
                        i += 1
                    if i >= len(txt):
                        break
                    o, i = dec.raw_decode(txt, i)
                    objs.append(o)
            except Exception:
                return p.returncode, None
            return p.returncode, objs

        def norm(rep):
            return {"name": os.path.basename(rep.get("name", "")), "status": rep.get("status"), "compliant": sorted(rep.get("compliant", [])),
                    "not_applicable": sorted(rep.get("not_applicable", [])),
                    "not_compliant": sorted(x["Rule"]["name"] for x in rep.get("not_compliant", []) if "Rule" in x)}
        singles, any_fail = {}, False
        for di, df_ in enumerate(dfs):
            for ri, r_ in enumerate(rf):
                rc, objs = run([r_], [df_])
                if not objs or len(objs) != 1:
                    return {"reproduced": False, "note": "singleton run gave no report", "exit": rc}
                singles[(ri, di)] = norm(objs[0])
                any_fail = any_fail or singles[(ri, di)]["status"] == "FAIL"
        out = []
        for order_r in ([0, 1], [1, 0]):
            for order_d in ([0, 1, 2], [2, 0, 1]):
                rc, objs = run([rf[i] for i in order_r], [dfs[i] for i in order_d])
                if rc != (19 if any_fail else 0):
                    out.append({"order": [order_r, order_d], "problem": f"exit code {rc}"})
                if not objs or len(objs) != len(order_r) * len(order_d):
                    out.append({"order": [order_r, order_d], "problem": "missing reports", "exit": rc})
                    continue
                k = 0
                for ri in order_r:
                    for di in order_d:
                        if norm(objs[k]) != singles[(ri, di)]:
                            out.append({"order": [order_r, order_d], "pair": [ri, di], "singleton": singles[(ri, di)], "in_batch": norm(objs[k])})
                        k += 1
        return {"reproduced": bool(out), "mismatches": out[:4], "rules_files": rules, "documents": datas}
    finally:
        shutil.rmtree(d, ignore_errors=True)


# --------------------------------------------------------------------------------------------------
# `cfn-guard test` (plain reporter): the exit code folded over test files and test cases
# --------------------------------------------------------------------------------------------------
def test_generic_report(a):
    c_ = mirsmt.consts_of(a.mir)
    for k in ("SUCCESS_STATUS_CODE", "TEST_ERROR_STATUS_CODE", "TEST_FAILURE_STATUS_CODE"):
        if k not in c_:
            raise Untranslatable(f"const {k} not found")
    OK, TERR, TFAIL = c_["SUCCESS_STATUS_CODE"], c_["TEST_ERROR_STATUS_CODE"], c_["TEST_FAILURE_STATUS_CODE"]
    lits = {}

    def m_get(ex, argv):
        """by_result.get("FAIL"): the literal key is checked by the caller; other keys are arbitrary lookups"""
        o = ex.fresh_enum("Option", 2, "got", {"Some": ex.opq()})
        return o
    ex = a.exec(r"generic::<impl at guard/src/commands/reporters/test/generic\.rs:\d+:\d+: \d+:\d+>::report",
                {"iterate_over": lambda ex, av: ex.opq(), "next": mirexec.m_iter_next, "into_iter": mirexec.m_new_iter,
                 "get_by_result": m_result_opq, "get": m_get, "is_some": lambda ex, av: ("bool", f"(= {av[0][2]} 1)") if av and av[0][0] == "enum" else ex.havoc("bool"),
                 "write_fmt": mirexec.m_result_unit, "print_test_case_report": lambda ex, av: ex.opq()},
                unroll=2, max_paths=60000)
    a.fns.append("commands::reporters::test::generic::GenericReporter::report")
    bad, ncase = [], 0
    for p in ex.paths:
        r = p.ret
        if p.outcome != "return" or not r or r[0] != "enum" or r[1] != "Result":
            bad.append(pc_term(p.pc))
            continue
        okv = r[3].get("Ok")
        gbr = calls(p, "get_by_result")
        gets = calls(p, "get")
        ncase += len(gbr)
        # errors: outer items that are Err(..) (a test file that cannot be read / parsed)
        outer_src = None
        for e in calls(p, "iterate_over"):
            outer_src = e[3]
        outer = iterations(ex, p, it_filter=lambda ev: outer_src is not None and ex.iter_src.get(ev[2][0][1], ev[2][0]) == outer_src)
        errs = [f"(and (= {t} 1) (= {disc(ex, el)} 1))" for _k, el, t, _i in outer if el is not None]
        fails = []
        key_ok = True
        for g in gets:
            if not (len(g[2]) == 2 and g[2][1] == ("str", "FAIL") and any(same(g[2][0], x[3][3]["Ok"]) for x in gbr)):
                key_ok = False
            fails.append(f"(= {g[3][2]} 1)")
        anyE = "(or false " + " ".join(errs) + ")"
        anyF = "(or false " + " ".join(fails) + ")"
        callee_err = "(or false " + " ".join(f"(= {e[3][2]} 1)" for e in gbr + calls(p, "write_fmt") if e[3][0] == "enum") + ")"
        if okv is not None and okv[0] == "int":
            code = okv[1]
            good_ok = (f"(and (not {callee_err}) (= (= {code} {OK}) (and (not {anyE}) (not {anyF}))) (=> (and (not {anyE}) {anyF}) (= {code} {TFAIL})) "
                       f"(=> (and {anyE} (not {anyF})) (= {code} {TERR})) (= {len(gets)} {len(gbr)}))")
        else:
            good_ok = "false"
        good = f"(ite (= {r[2]} 0) {good_ok} {callee_err})"
        bad.append(f"(and {pc_term(p.pc)} (not {good if key_ok else 'false'}))")
    c = a.discharge("test/generic-report/exit-code", ex, bad,
                f"`cfn-guard test` (plain output), <= 2 test files x <= 2 test cases ({ncase} case evaluations): exit code {OK} iff every "
                f"test file could be read and no case has a mismatching expectation (a `FAIL` group in its result); {TFAIL} if all files "
                f"were read and some case mismatches; {TERR} if a file could not be read and nothing mismatches; every case's result is "
                "inspected under the key \"FAIL\"; an evaluation error ends the run with Err")
    if c:
        c["replay"] = replay_test_cmd(a)
        c["reproduced"] = c["replay"].get("reproduced", False)
        a.candidates.append(c)


def test_get_by_result(a):
    """one test case of `cfn-guard test`: fresh scope, expectations matched per rule"""
    def m_gsr(ex, argv):
        return ("tuple", [ex.fresh_enum("Option", 2, "matched", {"Some": ex.fresh_status("mst")}), ex.opq()])
    ex = a.exec(r"generic::<impl at guard/src/commands/reporters/test/generic\.rs:\d+:\d+: \d+:\d+>::get_by_result",
                {"try_from": m_result_opq, "root_scope": m_scope, "eval_rules_file": mirexec.m_result_status, RC_NEW: mirexec.m_identity,
                 "get_by_rules": lambda ex, av: ex.opq(), "next": mirexec.m_iter_next, "into_iter": mirexec.m_new_iter,
                 "get": mirexec.m_option, "get_status_result": m_gsr, "from": mirexec.m_identity, "write_fmt": mirexec.m_result_unit,
                 "as_str": mirexec.m_identity, "or_insert_with": lambda ex, av: ex.opq(), "new": lambda ex, av: ex.opq()},
                log=("entry", "insert"), unroll=2, max_paths=60000, init_env=None)
    a.fns.append("commands::reporters::test::generic::GenericReporter::get_by_result")
    me, spec = ex.arg_env["_1"], ex.arg_env["_2"]
    GR = struct_fields(a.src, "commands/reporters/test/generic.rs", "GenericReporter")
    rules = field(ex, me, GR.index("rules"), "RulesFile")
    bad, nrule = [], 0
    for p in ex.paths:
        r = p.ret
        if p.outcome != "return" or not r or r[0] != "enum" or r[1] != "Result":
            bad.append(pc_term(p.pc))
            continue
        tf = [e for e in calls(p, "try_from") if "PathAwareValue" in e[5]]
        evs = calls(p, "eval_rules_file")
        probs = []
        if evs:
            doc = tf[0][3][3]["Ok"] if tf else None
            probs += pair_wiring(ex, p, lambda i: rules, lambda i: doc, lambda i: None)
            if len(evs) != 1:
                probs.append("a test case is evaluated more than once")
        gbr = calls(p, "get_by_rules")
        src = gbr[0][3] if gbr else None
        its = iterations(ex, p, it_filter=lambda ev: src is not None and ex.iter_src.get(ev[2][0][1], ev[2][0]) == src)
        bounds = [i for _k, _e, _t, i in its] + [len(p.events)]
        parts = []
        for n, (k, el, tag, i0) in enumerate(its):
            seg = [e for i, e in enumerate(p.events) if bounds[n] <= i < bounds[n + 1] and e[0] == "call"]
            g = [e for e in seg if e[1] == "get"]
            ent = [e for e in seg if e[1] == "entry"]
            gsr = [e for e in seg if e[1] == "get_status_result"]
            if not g:
                continue
            nrule += 1
            has_exp = f"(= {g[0][3][2]} 1)"
            if not ent:
                # nothing recorded for this rule: no expectation was stated (or the run ended with an error)
                parts.append(f"(or (not {has_exp}) (= {r[2]} 1))")
                continue
            label = ent[0][2][1] if len(ent[0][2]) > 1 else None
            if not gsr or gsr[0][3][0] != "tuple" or label is None or label[0] != "str" or len(ent) != 1:
                parts.append("false")
                continue
            matched = f"(= {gsr[0][3][1][0][2]} 1)"
            parts.append(f"(and {has_exp} " + (matched if label[1] == "PASS" else f"(not {matched})" if label[1] == "FAIL" else "false") + ")")
        callee_err = "(or false " + " ".join(f"(= {e[3][2]} 1)" for e in tf + evs + calls(p, "write_fmt") + [e for e in calls(p, "try_from") if "Status" in e[5]] if e[3][0] == "enum") + ")"
        good = f"(and true {' '.join(parts)} (=> (= {r[2]} 1) {callee_err}))"
        bad.append(f"(and {pc_term(p.pc)} (not {'false' if probs else good}))")
    c = a.discharge("test/get_by_result/expectations", ex, bad,
                    f"one test case, <= 2 rules ({nrule} rule visits): the input is evaluated once, in a fresh scope built from the rules "
                    "file and this case's input; a rule without a stated expectation is recorded neither as met nor as failed; a rule "
                    "whose expectation is met (per get_status_result) is recorded under PASS, otherwise under FAIL; Err only from a callee")
    if c:
        c["replay"] = replay_test_cmd(a)
        c["reproduced"] = c["replay"].get("reproduced", False)
        a.candidates.append(c)


def test_structured_evaluate(a):
    """`cfn-guard test -o json|yaml|junit`: StructuredTestReporter::evaluate - every test case is evaluated once, in a
    scope of its own built from the rules file and that case's input (nothing carried over from an earlier case)"""
    TD = struct_fields(a.src, "commands/reporters/test/structured.rs", "TestData")
    CR = struct_fields(a.src, "commands/reporters/test/structured.rs", "ContextAwareRule")
    ST = struct_fields(a.src, "commands/reporters/test/structured.rs", "StructuredTestReporter")

    def m_gbr(ex, argv):
        v = ex.opq()
        ex.side.append(f"(<= {ex.len_of(v)} 1)")
        return v

    def m_gsr(ex, argv):
        return ("tuple", [ex.fresh_enum("Option", 2, "matched", {"Some": ex.fresh_status("mst")}), ex.opq()])

    def m_collect_src(ex, argv):
        # `c.into_iter().collect()` straight from a collection (into an ordered map): the same entries; anything in between
        # (map / filter / ...) is not modelled and yields an unrelated value
        v = argv[0] if argv else None
        return ex.iter_src.get(v[1], v) if v is not None and v[0] == "opaque" else ex.opq()
    ex = a.exec(r"(?:reporters::test::)?structured::<impl at guard/src/commands/reporters/test/structured\.rs:\d+:\d+: \d+:\d+>::evaluate",
                {"iterate_over": lambda ex, av: ex.opq(), "next": mirexec.m_iter_next, "into_iter": mirexec.m_new_iter, "iter": mirexec.m_new_iter,
                 "get_test_data": m_result_opq, "root_scope": m_scope, "eval_rules_file": mirexec.m_result_status, RC_NEW: mirexec.m_identity,
                 "clone": mirexec.m_identity, "reset_recorder": lambda ex, av: ex.opq(), "extract": lambda ex, av: ex.opq(),
                 "get_by_rules": m_gbr, "get": mirexec.m_option, "try_from": m_result_opq, "get_status_result": m_gsr,
                 "to_owned": mirexec.m_identity, "to_string": mirexec.m_identity, "as_str": mirexec.m_identity,
                 "now": lambda ex, av: ex.opq(), "elapsed": lambda ex, av: ex.opq(), "as_millis": lambda ex, av: ex.havoc("u128"),
                 "default": lambda ex, av: ex.opq(), "insert_test_case": lambda ex, av: ("unit",), "collect": m_collect_src},
                log=("push", "reset_root", "*scope*"), unroll=2, max_paths=120000)
    a.fns.append("commands::reporters::test::structured::StructuredTestReporter::evaluate")
    me = ex.arg_env["_1"]
    car = field(ex, me, ST.index("rules"), "ContextAwareRule")
    rule = field(ex, car, CR.index("rule"), "RulesFile")
    bad, ncase = [], 0
    for p in ex.paths:
        r = p.ret
        if p.outcome != "return" or not r or r[0] != "enum" or r[1] != "Result":
            bad.append(pc_term(p.pc))
            continue
        gtd = calls(p, "get_test_data")
        evs = calls(p, "eval_rules_file")
        # the inner loops: one per Ok(spec) - iterate over that spec's test data
        docs = []
        for g in gtd:
            if g[3][0] != "enum":
                continue
            vec = g[3][3]["Ok"]
            for k, el, tag, i0 in iterations(ex, p, it_filter=lambda ev, vec=vec: ex.iter_src.get(ev[2][0][1], ev[2][0]) == vec):
                if el is not None and f"(= {tag} 1)" in p.pc:
                    docs.append((i0, field(ex, el, TD.index("path_value"), "Rc")))
        docs.sort(key=lambda t: t[0])
        ncase += len(evs)
        probs = []
        # every entered test case is evaluated, unless the run ended in an error first
        if len(evs) > len(docs) or (len(evs) < len(docs) - 1):
            probs.append("number of evaluations differs from the number of test cases visited")
        probs += pair_wiring(ex, p, lambda i: rule, lambda i: docs[i][1] if i < len(docs) else None, lambda i: None)
        callee_err = "(or false " + " ".join(f"(= {e[3][2]} 1)" for e in gtd + evs if e[3][0] == "enum") + ")"
        short = "true" if len(evs) == len(docs) else f"(= {r[2]} 1)"      # one case fewer only when that case's evaluation errored out
        good = f"(and {short} (=> (= {r[2]} 1) {callee_err}))"
        bad.append(f"(and {pc_term(p.pc)} (not {'false' if probs else good}))")
    # ---- per rule of a case: which list it is recorded in (C16) ------------------------------------------------
    def from_elem(v, el):
        if v is None or el is None or v[0] != "opaque" or el[0] != "opaque":
            return False
        seen, todo = set(), [v[1]]
        while todo:
            x = todo.pop()
            if x == el[1]:
                return True
            if x in seen:
                continue
            seen.add(x)
            todo += [b for (b, _k), val in ex.proj.items() if val[0] == "opaque" and val[1] == x]
        return False
    bad2, nrule = [], 0
    for p in ex.paths:
        r = p.ret
        if p.outcome != "return" or not r or r[0] != "enum" or r[1] != "Result":
            continue
        gbrs = calls(p, "get_by_rules")
        parts = []
        analysed = set()
        case_els = []
        for gt in calls(p, "get_test_data"):
            if gt[3][0] == "enum":
                vec = gt[3][3]["Ok"]
                case_els += [(i0, el) for k, el, tag, i0 in iterations(ex, p, it_filter=lambda ev, vec=vec: ex.iter_src.get(ev[2][0][1], ev[2][0]) == vec)
                             if f"(= {tag} 1)" in p.pc]
        for g in gbrs:
            gi = p.events.index(g)
            cur = [el for i0, el in sorted(case_els, key=lambda t: t[0]) if i0 < gi]
            case_el = cur[-1] if cur else None
            its = iterations(ex, p, it_filter=lambda ev, g=g: ex.iter_src.get(ev[2][0][1], ev[2][0]) == g[3])
            idx = [i for _k, _e, _t, i in its]
            for n, (k, el, tag, i0) in enumerate(its):
                if f"(= {tag} 1)" not in p.pc:
                    continue
                end = idx[n + 1] if n + 1 < len(idx) else len(p.events)
                seg = [e for i, e in enumerate(p.events) if i0 < i < end and e[0] == "call"]
                gets = [e for e in seg if e[1] == "get"]
                tfs = [e for e in seg if e[1] == "try_from"]
                gsrs = [e for e in seg if e[1] == "get_status_result"]
                pushes = [e for e in seg if e[1] == "push"]
                analysed.update(id(e) for e in pushes)
                nrule += 1
                if len(gets) != 1 or not from_elem(gets[0][2][1], el) or not from_elem(gets[0][2][0], case_el):
                    parts.append("false")
                    continue
                key = gets[0][2][1]
                has = f"(= {gets[0][3][2]} 1)"

                def pushed(kind):
                    return (len(pushes) == 1 and pushes[0][2][1][0] == "struct" and pushes[0][2][1][1] == kind
                            and same(pushes[0][2][1][2].get("name"), key))
                if not tfs:
                    parts.append(f"(not {has})" if pushed("SkippedRule") else "false")
                    continue
                exp_ok = f"(= {tfs[0][3][2]} 0)"
                if not gsrs:
                    # the expectation text is not a status: the run is reported as an error, nothing is recorded for the rule
                    parts.append(f"(and {has} (not {exp_ok}))" if not pushes else "false")
                    continue
                gs = gsrs[0]
                wired = same(gs[2][0], tfs[0][3][3]["Ok"]) and from_elem(gs[2][1], el) and same(tfs[0][2][0], gets[0][3][3]["Some"])
                if not wired or gs[3][0] != "tuple":
                    parts.append("false")
                    continue
                m = gs[3][1][0]
                if pushed("PassedRule"):
                    ok = same(pushes[0][2][1][2].get("evaluated"), m[3]["Some"])
                    parts.append(f"(and {has} {exp_ok} (= {m[2]} 1))" if ok else "false")
                elif pushed("FailedRule"):
                    ok = same(pushes[0][2][1][2].get("expected"), tfs[0][3][3]["Ok"]) and same(pushes[0][2][1][2].get("evaluated"), gs[3][1][1])
                    parts.append(f"(and {has} {exp_ok} (= {m[2]} 0))" if ok else "false")
                else:
                    parts.append("false")
        # every rule recorded on this path was recorded while visiting an entry of get_by_rules' OWN result (a loop over a re-keyed,
        # filtered or otherwise derived collection is not the documented one)
        stray = [e for e in calls(p, "push") if len(e[2]) == 2 and e[2][1][0] == "struct" and e[2][1][1] in ("PassedRule", "FailedRule", "SkippedRule")
                 and id(e) not in analysed]
        if stray:
            import os
            if os.environ.get("DBG_STRAY"):
                print("STRAY", [(p.events.index(e), e[2][1][1]) for e in stray], [(p.events.index(g), g[3]) for g in gbrs],
                      [(i, e[2][0], ex.iter_src.get(e[2][0][1]) if e[2][0][0] == "opaque" else None) for i, e in enumerate(p.events) if e[0] == "call" and e[1] == "next"][:8])
            parts.append("false")
        if parts:
            bad2.append(f"(and {pc_term(p.pc)} (not (and true {' '.join(parts)})))")
    c2 = a.discharge("test/structured/expectations", ex, bad2,
                     f"StructuredTestReporter::evaluate ({nrule} rule visits): a rule of a test case is looked up in THAT case's expectations "
                     "by its own name; without an expectation it is pushed to skipped_rules only; with one, get_status_result(expected, "
                     "this rule's records) decides: Some(status) => passed_rules with that status, None => failed_rules with the "
                     "expected status and the evaluated statuses; an unparsable expectation records nothing", witness=False)
    if c2:
        c2["replay"] = replay_test_structured(a)
        c2["reproduced"] = c2["replay"].get("reproduced", False)
        a.candidates.append(c2)
    c = a.discharge("test/structured/fresh-scope-per-case", ex, bad,
                    f"StructuredTestReporter::evaluate, <= 2 test files x <= 2 test cases x <= 1 rule name ({ncase} case evaluations): every "
                    "test case is evaluated exactly once, by eval_rules_file on the reporter's rules file, in a scope that root_scope built "
                    "for this case from that rules file and this case's input and that no other case uses; Err only from a callee")
    if c:
        c["replay"] = replay_test_structured(a)
        c["reproduced"] = c["replay"].get("reproduced", False)
        a.candidates.append(c)


def replay_test_structured(a):
    """`cfn-guard test -o json` on two test cases in which a named rule referenced by another rule has different statuses,
    in both orders: every case's passed/failed lists equal those of the case alone in its file; exit 0"""
    import os, shutil, subprocess, tempfile, json as _json
    exe = a.cli()
    if not exe:
        return {"reproduced": False, "note": "native build failed"}
    rules = "rule base {\n  a == 1\n}\nrule dep when base {\n  b == 1\n}\nrule neg when !base {\n  b == 2\n}\n"
    cases = {"x": ("a: 1\n    b: 1", {"base": "PASS", "dep": "PASS", "neg": "SKIP"}),
             "y": ("a: 2\n    b: 2", {"base": "FAIL", "dep": "SKIP", "neg": "PASS"}),
             "z": ("a: 1\n    b: 2", {"base": "PASS", "dep": "FAIL", "neg": "SKIP"})}

    def text(names):
        out = ""
        for n in names:
            inp, exp = cases[n]
            out += f"- name: {n}\n  input:\n    {inp}\n  expectations:\n    rules:\n" + "".join(f"      {k}: {v}\n" for k, v in exp.items())
        return out
    d = tempfile.mkdtemp(prefix="cfnverif_replay_")
    env = dict(os.environ)
    env["RUST_BACKTRACE"] = "0"
    try:
        open(os.path.join(d, "r.guard"), "w").write(rules)
        tried = []
        for fmt in ("json", "junit"):
            for order in (["x"], ["y"], ["z"], ["x", "y"], ["y", "x"], ["z", "y"], ["y", "z"], ["x", "y", "z"], ["y", "z", "x"]):
                open(os.path.join(d, "t.yaml"), "w").write(text(order))
                pr = subprocess.run([exe, "test", "-r", os.path.join(d, "r.guard"), "-t", os.path.join(d, "t.yaml"), "-o", fmt],
                                    capture_output=True, text=True, env=env, timeout=60)
                ok = pr.returncode == 0
                detail = None
                if fmt == "json":
                    try:
                        rep = _json.loads(pr.stdout)
                        rep = rep[0] if isinstance(rep, list) else rep
                        tcs = rep.get("Ok", rep).get("test_cases", [])
                        ok = ok and len(tcs) == len(order) and all(not t.get("failed_rules") and len(t.get("passed_rules", [])) == 3 for t in tcs)
                        detail = tcs
                    except Exception as e:
                        ok, detail = False, f"unparsable output: {e}: {pr.stdout[:200]}"
                else:
                    ok = ok and "<failure" not in pr.stdout and "<error" not in pr.stdout
                tried.append({"fmt": fmt, "order": order, "ok": ok, "exit": pr.returncode})
                if not ok:
                    return {"reproduced": True, "rules_file": rules, "test_file": text(order), "cmd": f"cfn-guard test -r r.guard -t t.yaml -o {fmt}",
                            "expected": "exit 0 and every expectation met (each case alone meets them)", "exit": pr.returncode,
                            "observed": detail if detail is not None else pr.stdout[:600]}
            # one UNMET expectation somewhere in the file: exit 7, whatever its position
            for order, bad_at in ((["x"], 0), (["x", "y"], 0), (["x", "y"], 1), (["y", "z", "x"], 1)):
                t = text(order)
                victim = order[bad_at]
                wrong = {"PASS": "FAIL", "FAIL": "PASS", "SKIP": "PASS"}[cases[victim][1]["base"]]
                blocks = t.split("- name: ")
                blocks[bad_at + 1] = blocks[bad_at + 1].replace(f"base: {cases[victim][1]['base']}", f"base: {wrong}", 1)
                open(os.path.join(d, "t.yaml"), "w").write("- name: ".join(blocks))
                pr = subprocess.run([exe, "test", "-r", os.path.join(d, "r.guard"), "-t", os.path.join(d, "t.yaml"), "-o", fmt],
                                    capture_output=True, text=True, env=env, timeout=60)
                ok = pr.returncode == 7
                tried.append({"fmt": fmt, "order": order, "unmet_in_case": bad_at, "ok": ok, "exit": pr.returncode})
                if not ok:
                    return {"reproduced": True, "rules_file": rules, "test_file": "- name: ".join(blocks), "cmd": f"cfn-guard test -r r.guard -t t.yaml -o {fmt}",
                            "expected": "exit 7 (one expectation is not met)", "exit": pr.returncode, "observed": pr.stdout[:400]}
        # rule names that differ only in letter case are different rules: both are reported, an unmet expectation on either gives 7
        open(os.path.join(d, "r2.guard"), "w").write("rule chk {\n  a == 1\n}\nrule CHK {\n  a == 2\n}\nrule Chk when a == 3 {\n  a == 1\n}\n")
        for fmt in ("json", "junit"):
            for exp, want in (({"chk": "PASS", "CHK": "FAIL", "Chk": "SKIP"}, 0), ({"chk": "PASS", "CHK": "PASS", "Chk": "SKIP"}, 7),
                              ({"chk": "FAIL", "CHK": "FAIL", "Chk": "SKIP"}, 7), ({"chk": "PASS", "CHK": "FAIL", "Chk": "PASS"}, 7)):
                open(os.path.join(d, "t2.yaml"), "w").write("- name: c\n  input:\n    a: 1\n  expectations:\n    rules:\n"
                                                          + "".join(f"      {k}: {v}\n" for k, v in exp.items()))
                for rep_no in range(6):          # the defect this guards against depends on hash order: several processes
                    pr = subprocess.run([exe, "test", "-r", os.path.join(d, "r2.guard"), "-t", os.path.join(d, "t2.yaml"), "-o", fmt],
                                        capture_output=True, text=True, env=env, timeout=60)
                    ok = pr.returncode == want
                    if ok and fmt == "json":
                        try:
                            rep = _json.loads(pr.stdout)
                            rep = rep[0] if isinstance(rep, list) else rep
                            tc = rep.get("Ok", rep).get("test_cases", [])[0]
                            names = sorted(x.get("name") for k in ("passed_rules", "failed_rules", "skipped_rules") for x in tc.get(k, []))
                            ok = names == sorted(exp)
                        except Exception:
                            ok = False
                    tried.append({"fmt": fmt, "expectations": exp, "ok": ok, "exit": pr.returncode})
                    if not ok:
                        return {"reproduced": True, "rules_file": open(os.path.join(d, "r2.guard")).read(), "expectations": exp,
                                "cmd": f"cfn-guard test -r r2.guard -t t2.yaml -o {fmt}", "expected": f"exit {want}, all three rules reported",
                                "exit": pr.returncode, "observed": pr.stdout[:600]}
        return {"reproduced": False, "tried": tried}
    finally:
        shutil.rmtree(d, ignore_errors=True)


def test_get_by_rules(a):
    """grouping of rule records by name for the `test` command: every RuleCheck record is ADDED to its name's group"""
    RT = enum_variants(a.src, "rules/mod.rs", "RecordType")
    ER = struct_fields(a.src, "rules/eval_context.rs", "EventRecord")
    NS = struct_fields(a.src, "rules/mod.rs", "NamedStatus")
    top = mirsmt.find_fn(a.mir, r"(?:commands::reporters::test::)?get_by_rules")
    ok_shape = bool(re.search(r"::fold::<", top)) and bool(re.search(r"children", top) or True)
    try:
        ex = a.exec(r"(?:commands::reporters::test::)?get_by_rules::\{closure#0\}",
                    {"entry": lambda ex, av: ex.opq(), "or_default": lambda ex, av: ex.opq()}, log=("push", "insert"), unroll=1, max_paths=2000)
    except Untranslatable:
        ok_shape = False
    if not ok_shape:
        a.ob.items.append({"obligation": "test/get_by_rules/grouping", "describe": "get_by_rules is no longer a fold over the child records "
                           "with one closure: the grouping obligation cannot be stated on this code (inconclusive, not a pass)",
                           "verdicts": {}, "status": "inconclusive", "model": None})
        return
    a.fns.append("commands::reporters::test::get_by_rules (+ its fold closure)")
    acc, rec = ex.arg_env["_2"], ex.arg_env["_3"]
    cont = field(ex, rec, ER.index("container"), "Option")
    some = payload(ex, cont, "Some")
    isrule = f"(and (= {disc(ex, cont)} 1) (= {disc(ex, some)} {RT.index('RuleCheck')}))"
    name = field(ex, payload(ex, some, "RuleCheck"), NS.index("name"), "&str")
    bad = []
    for p in ex.paths:
        ents, ods, pushes = calls(p, "entry"), calls(p, "or_default"), [e for e in calls(p, "push") if len(e[2]) == 2]
        if p.outcome != "return" or not same(p.ret, acc) or calls(p, "insert"):
            bad.append(pc_term(p.pc))
            continue
        if ents:
            ok = (len(ents) == 1 and same(ents[0][2][0], acc) and same(ents[0][2][1], name) and len(ods) == 1 and same(ods[0][2][0], ents[0][3])
                  and len(pushes) == 1 and same(pushes[0][2][0], ods[0][3]) and same(pushes[0][2][1], cont))
            bad.append(f"(and {pc_term(p.pc)} (not {isrule if ok else 'false'}))")
        else:
            bad.append(f"(and {pc_term(p.pc)} {isrule})" if not pushes else pc_term(p.pc))
    c = a.discharge("test/get_by_rules/grouping", ex, bad,
                    "`test`: folding one child record into the by-name groups - a RuleCheck record is appended (never replaces) to the "
                    "group of its own rule name, any other record leaves the groups unchanged; the same map is passed on")
    if c:
        c["replay"] = replay_test_cmd(a)
        c["reproduced"] = c["replay"].get("reproduced", False)
        a.candidates.append(c)


def replay_test_cmd(a):
    """`cfn-guard test` on sequences of <= 3 test cases whose expectations match (M) or mismatch (X), in one or two
    test files: exit 0 iff all match, 7 iff some mismatch; an unreadable test file gives a non-zero exit"""
    import itertools, os, shutil, subprocess, tempfile
    exe = a.cli()
    if not exe:
        return {"reproduced": False, "note": "native build failed"}
    rules = "rule r { a == 1 }\nrule s when a == 2 { b exists }\n"

    def case(i, kind):
        # M: all expectations match; X: one mismatches; N: matches, and rule `s` (which is SKIP) has no expectation at all
        exp = "FAIL" if kind == "X" else "PASS"
        return f"- name: c{i}\n  input:\n    a: 1\n  expectations:\n    rules:\n      r: {exp}\n" + ("" if kind == "N" else "      s: SKIP\n")
    d = tempfile.mkdtemp(prefix="cfnverif_replay_")
    out = []
    try:
        open(os.path.join(d, "r.guard"), "w").write(rules)
        env = dict(os.environ)
        env["RUST_BACKTRACE"] = "0"
        for n in (1, 2, 3):
            for seq in itertools.product("MXN", repeat=n):
                for split in (0,):                  # one test file (`--test-data` may be given once)
                    files = []
                    parts = [seq[:split], seq[split:]] if split else [seq]
                    for fi, part in enumerate(parts):
                        f = os.path.join(d, f"t{fi}.yaml")
                        open(f, "w").write("---\n" + "".join(case(i, k) for i, k in enumerate(part)))
                        files.append(f)
                    cmd = [exe, "test", "-r", os.path.join(d, "r.guard")]
                    for f in files:
                        cmd += ["-t", f]
                    p = subprocess.run(cmd, stdout=subprocess.PIPE, stderr=subprocess.PIPE, text=True, timeout=120, env=env)
                    want = 7 if "X" in seq else 0
                    if p.returncode != want:
                        out.append({"cases": "".join(seq), "files": len(files), "expected_exit": want, "observed_exit": p.returncode,
                                    "stderr": p.stderr[-150:]})
        open(os.path.join(d, "bad.yaml"), "w").write("- name: [unterminated\n")
        p = subprocess.run([exe, "test", "-r", os.path.join(d, "r.guard"), "-t", os.path.join(d, "bad.yaml")],
                           stdout=subprocess.PIPE, stderr=subprocess.PIPE, text=True, timeout=120, env=env)
        if p.returncode == 0:
            out.append({"cases": "unreadable test file", "expected_exit": "non-zero", "observed_exit": 0})
        return {"reproduced": bool(out), "mismatches": out[:5], "rules_file": rules}
    finally:
        shutil.rmtree(d, ignore_errors=True)


# --------------------------------------------------------------------------------------------------
# JUnit path: update_exit_code (pure), get_test_case (scope wiring, status -> test-case mark)
# --------------------------------------------------------------------------------------------------
def junit_exit_code(a):
    OK, ERR, FAILC = consts(a)
    jr = struct_fields(a.src, "commands/reporters/mod.rs", "JunitReporter")
    ex = a.exec(r"reporters::<impl at guard/src/commands/reporters/mod\.rs:\d+:\d+: \d+:\d+>::update_exit_code", {}, unroll=1)
    a.fns.append("commands::reporters::JunitReporter::update_exit_code")
    me = ex.arg_env["_1"]
    key = (me[1], f".{jr.index('exit_code')}")
    old = field(ex, me, jr.index("exit_code"), "i32")[1]
    code = ex.arg_env["_2"][1]
    bad = []
    for p in ex.paths:
        st = (p.env.get("$stores") or {}).get(key)
        new = st[1] if st and st[0] == "int" else old
        want = f"(ite (= {code} {ERR}) {ERR} (ite (and (= {code} {FAILC}) (not (= {old} {ERR}))) {FAILC} {old}))"
        bad.append(f"(and {pc_term(p.pc)} (not (= {new} {want})))")
    a.discharge("junit/update_exit_code", ex, bad,
                f"JUnit path: update_exit_code(code) sets the exit code to {ERR} for an error, to {FAILC} for a failure unless an error "
                "was already recorded, and otherwise leaves it unchanged (error > failure > success), for every i32 pair")


def junit_test_case(a):
    df = struct_fields(a.src, "commands/validate.rs", "DataFile")
    TCS = enum_variants(a.src, "commands/reporters/mod.rs", "TestCaseStatus")
    ex = a.exec(r"(?:commands::reporters::)?get_test_case",
                {"root_scope": m_scope, "eval_rules_file": mirexec.m_result_status, "simplified_json_from_root": m_result_opq,
                 RC_NEW: mirexec.m_identity, "fold": lambda ex, av: ex.opq()}, unroll=1, max_paths=20000)
    a.fns.append("commands::reporters::get_test_case")
    data, rule = ex.arg_env["_1"], ex.arg_env["_2"]
    bad = []
    for p in ex.paths:
        r = p.ret
        if not r or r[0] != "enum" or r[1] != "Result":
            bad.append(pc_term(p.pc))
            continue
        probs = pair_wiring(ex, p, lambda i: rule, lambda i: field(ex, data, df.index("path_value"), "PathAwareValue"),
                            lambda i: field(ex, data, df.index("name"), "String"))
        evals = calls(p, "eval_rules_file")
        if len(evals) != 1:
            bad.append(pc_term(p.pc))
            continue
        etag, est = evals[0][3][2], evals[0][3][3]["Ok"][2]
        sj = calls(p, "simplified_json_from_root")
        okv = r[3].get("Ok")
        parts = [f"(= (= {r[2]} 1) (= {etag} 1))"]
        if okv is not None and okv[0] == "struct":
            stv = okv[2].get("status")
            mark = stv[2] if stv and stv[0] == "variant" else (stv[1] if stv and stv[0] == "struct" and stv[1] in TCS else None)
            sjerr = f"(= {sj[0][3][2]} 1)" if sj else "false"
            want = {"Pass": f"(and (not {sjerr}) (= {est} {a.P}))", "Skip": f"(and (not {sjerr}) (= {est} {a.S}))",
                    "Fail": f"(and (not {sjerr}) (= {est} {a.F}))", "Error": sjerr}.get(mark, "false")
            parts.append(f"(=> (= {r[2]} 0) {want})")
        elif okv is not None:
            parts.append(f"(not (= {r[2]} 0))")
        good = "false" if probs else "(and " + " ".join(parts) + ")"
        bad.append(f"(and {pc_term(p.pc)} (not {good}))")
    a.discharge("junit/get_test_case", ex, bad,
                "JUnit path, one (document, rules file) pair: evaluated once in a scope built from that rules file and that document; "
                "the test case is marked Pass / Skip / Fail exactly for status PASS / SKIP / FAIL, Error only if the report cannot be "
                "built; an evaluation error is returned as Err")


# --------------------------------------------------------------------------------------------------
# simplified_json_from_root: the partition of rule names into compliant / not_applicable (and neither for FAIL)
# --------------------------------------------------------------------------------------------------
def report_partition(a):
    RT = enum_variants(a.src, "rules/mod.rs", "RecordType")
    ER = struct_fields(a.src, "rules/eval_context.rs", "EventRecord")
    NS = struct_fields(a.src, "rules/mod.rs", "NamedStatus")
    ex = a.exec(r"(?:(?:rules::)?eval_context::)?simplified_json_from_root",
                {"next": mirexec.m_iter_next, "into_iter": mirexec.m_new_iter, "iter": mirexec.m_new_iter,
                 "to_string": mirexec.m_identity, "report_all_failed_clauses_for_rules": lambda ex, av: ex.opq(),
                 "re:BTreeSet::<.*>::new$": lambda ex, av: ex.opq(), "default": lambda ex, av: ex.opq()},
                log=("insert",), unroll=2, max_paths=40000)
    a.fns.append("rules::eval_context::simplified_json_from_root")
    root = ex.arg_env["_1"]

    def rule_record(el, variant):
        """(is-a-<variant>-record term, NamedStatus value) of an EventRecord value"""
        cont = field(ex, el, ER.index("container"), "Option")
        some = payload(ex, cont, "Some")
        ns = payload(ex, some, variant)
        return f"(and (= {disc(ex, cont)} 1) (= {disc(ex, some)} {RT.index(variant)}))", ns
    bad, nins = [], 0
    for p in ex.paths:
        if p.outcome == "panic":
            isfile, _ns = rule_record(root, "FileCheck")           # `_ => unreachable!()`: only for a non-FileCheck root
            bad.append(f"(and {pc_term(p.pc)} {isfile})")
            continue
        r = p.ret
        okv = r[3].get("Ok") if (r and r[0] == "enum" and r[1] == "Result") else None
        if okv is None or okv[0] != "struct":
            bad.append(pc_term(p.pc))
            continue
        f = okv[2]
        comp, na, nc, fst = f.get("compliant"), f.get("not_applicable"), f.get("not_compliant"), f.get("status")
        parts = []
        isfile, fns_ = rule_record(root, "FileCheck")
        fstatus = field(ex, fns_, NS.index("status"), "rules::Status")
        parts.append(isfile)
        parts.append(f"(= {fst[2]} {fstatus[2]})" if (fst and fst[0] == "enum" and fstatus[0] == "enum") else "false")
        parts.append("true" if (comp and na and comp[0] == "opaque" and na[0] == "opaque" and comp != na) else "false")
        fc = calls(p, "report_all_failed_clauses_for_rules")
        parts.append("true" if (len(fc) == 1 and same(fc[0][3], nc)
                                and same(fc[0][2][0], field(ex, root, ER.index("children"), "Vec"))) else "false")
        its = iterations(ex, p)
        it_idx = {i: k for k, _el, _t, i in its}
        cur, per_child = None, {}
        for i, e in enumerate(p.events):
            if i in it_idx:
                cur = it_idx[i]
            if e[0] == "call" and e[1] == "insert":
                nins += 1
                per_child.setdefault(cur, []).append(e)
        if None in per_child:
            parts.append("false")
        for k, el, tag, _i in its:
            isrule, ns = rule_record(el, "RuleCheck")
            st = field(ex, ns, NS.index("status"), "rules::Status")
            nm = field(ex, ns, NS.index("name"), "&str")
            evs = per_child.get(k, [])
            here = f"(= {tag} 1)"
            if not evs:
                parts.append(f"(=> {here} (not (and {isrule} (or (= {st[2]} {a.P}) (= {st[2]} {a.S})))))")
            elif len(evs) == 1:
                tgt, name_v = evs[0][2][0], evs[0][2][1]
                want = a.P if same(tgt, comp) else (a.S if same(tgt, na) else None)
                parts.append(f"(and {here} {isrule} (= {st[2]} {want}))" if (want is not None and same(name_v, nm)) else "false")
            else:
                parts.append("false")
        good = "(and " + " ".join(parts) + ")"
        bad.append(f"(and {pc_term(p.pc)} (not {good}))")
    # ---- one bucket per NAME (a rule name may be defined several times) -------------------------------------------
    bad_dup, unmodelled = [], False
    for p in ex.paths:
        r = p.ret
        okv = r[3].get("Ok") if (p.outcome == "return" and r and r[0] == "enum" and r[1] == "Result") else None
        if okv is None or okv[0] != "struct":
            continue
        comp, na = okv[2].get("compliant"), okv[2].get("not_applicable")
        # any later clean-up of the sets (retain / remove / difference ...) is not modelled: then this obligation is not decided
        if any(e[0] == "call" and e[1] in ("retain", "remove", "difference", "take", "extract_if", "drain") for e in p.events):
            unmodelled = True
        its = [(k, el, tag) for k, el, tag, _i in iterations(ex, p) if f"(= {tag} 1)" in p.pc]
        if len(its) < 2:
            continue
        recs = []
        for k, el, tag in its[:2]:
            isrule, ns = rule_record(el, "RuleCheck")
            st = field(ex, ns, NS.index("status"), "rules::Status")
            nm = field(ex, ns, NS.index("name"), "&str")
            key = ("nameid", nm[1] if nm[0] == "opaque" else str(nm))
            if key not in ex.proj:
                ex.proj[key] = ex.fresh("Int", "nameid")
            recs.append((isrule, st[2], ex.proj[key]))
        (r0, s0, n0), (r1, s1, n1) = recs
        # per record: PASS -> compliant, SKIP -> not_applicable (decided above), FAIL -> listed in not_compliant (rule-listing
        # obligation): two records of ONE name with different statuses put that name into two buckets
        bad_dup.append(f"(and {pc_term(p.pc)} {r0} {r1} (= {n0} {n1}) (not (= {s0} {s1})))")
    if unmodelled:
        a.ob.items.append({"obligation": "simplified_json_from_root/one-bucket-per-name", "describe": "the sets are post-processed by calls "
                           "the executor does not model: not decided", "verdicts": {}, "status": "inconclusive", "model": None})
    else:
        cd = a.discharge("simplified_json_from_root/one-bucket-per-name", ex, bad_dup,
                         "report of one evaluation with two rule records of the SAME name (a rule defined twice) whose statuses differ: the "
                         "name is listed in exactly one of compliant / not_applicable / not_compliant", witness=False)
        if cd:
            cd["replay"] = replay_duplicate_names(a)
            cd["reproduced"] = cd["replay"].get("reproduced", False)
            a.candidates.append(cd)
    c = a.discharge("simplified_json_from_root/partition", ex, bad,
                    f"report of one evaluation, <= 2 rule records ({nins} set insertions over all paths): a rule's name is put into "
                    "`compliant` iff its RuleCheck status is PASS, into `not_applicable` iff SKIP, into neither for FAIL; the two sets are "
                    "distinct; the report's status is the FileCheck status; `not_compliant` is built from the same child records")
    if c:
        c["replay"] = a.replay_rules_file(c)
        c["reproduced"] = c["replay"].get("reproduced", False)
        a.candidates.append(c)


# --------------------------------------------------------------------------------------------------
# input parameters: PathAwareValue::merge (map / map arm) and the two call sites that merge parameters into a document
# --------------------------------------------------------------------------------------------------
def merge_map(a):
    PV = enum_variants(a.src, "rules/path_value.rs", "PathAwareValue")
    MAP, LIST = PV.index("Map"), PV.index("List")
    ex = a.exec(r"(?:rules::)?path_value::<impl at guard/src/rules/path_value\.rs:\d+:\d+: \d+:\d+>::merge",
                {"contains_key": lambda ex, av: ("bool", ex.fresh("Bool", "has")), "insert": mirexec.m_option,
                 "next": mirexec.m_iter_next, "into_iter": mirexec.m_new_iter, "iter": mirexec.m_new_iter,
                 "is_null": lambda ex, av: ("bool", ex.fresh("Bool", "isnull")), "extend_str": lambda ex, av: ex.opq()},
                log=("push", "extend"), unroll=2, max_paths=40000)
    a.fns.append("rules::path_value::PathAwareValue::merge")
    me, other = ex.arg_env["_1"], ex.arg_env["_2"]
    d_me, d_ot = disc(ex, me), disc(ex, other)
    bad, nit = [], 0
    for p in ex.paths:
        r = p.ret
        if p.outcome == "panic" or not r or r[0] != "enum" or r[1] != "Result":
            bad.append(pc_term(p.pc))
            continue
        its = iterations(ex, p)
        it_idx = {i: k for k, _el, _t, i in its}
        cur, per = None, {}
        for i, e in enumerate(p.events):
            if i in it_idx:
                cur = it_idx[i]
            if e[0] == "call" and e[1] in ("contains_key", "insert", "push"):
                per.setdefault(cur, []).append(e)
        both_maps = f"(and (= {d_me} {MAP}) (= {d_ot} {MAP}))"
        both_lists = f"(and (= {d_me} {LIST}) (= {d_ot} {LIST}))"
        present, complete, consistent = [], [], []
        for k, el, tag, _i in its:
            nit += 1
            key = field(ex, el, 0, "String") if el[0] == "opaque" else None
            val = field(ex, el, 1, "PathAwareValue") if el[0] == "opaque" else None
            evs = per.get(k, [])
            here = f"(= {tag} 1)"
            pk = []
            for e in evs:
                if e[1] == "contains_key" and e[3][0] == "bool":
                    pk.append(e[3][1])
                if e[1] == "insert" and e[3][0] == "enum":
                    pk.append(f"(= {e[3][2]} 1)")          # insert() returned the previous value: the key was already defined
                    # IndexMap contract: insert returns Some(previous) exactly when contains_key was true just before
                    for e2 in evs:
                        if e2[1] == "contains_key" and e2[3][0] == "bool" and same(e2[2][0], e[2][0]):
                            consistent.append(f"(= {e2[3][1]} (= {e[3][2]} 1))")
            present.append(f"(and {here} (or false {' '.join(pk)}))")
            ins = [e for e in evs if e[1] == "insert"]
            stored = bool(ins) and len(ins[0][2]) == 3 and same(ins[0][2][1], key) and same(ins[0][2][2], val)
            keyed = any(e[1] == "push" for e in evs)
            complete.append(f"(=> {here} {'true' if (stored and keyed) else 'false'})")
        anyp = "(or false " + " ".join(present) + ")"
        good_ok = f"(or {both_lists} (and {both_maps} (not {anyp}) {' '.join(complete) if complete else 'true'}))"
        good_err = f"(or (not (or {both_maps} {both_lists})) (and {both_maps} {anyp}))"
        good = f"(ite (= {r[2]} 0) {good_ok} {good_err})"
        bad.append(f"(and {pc_term(p.pc)} {' '.join(consistent)} (not {good}))")
    c = a.discharge("PathAwareValue::merge/maps", ex, bad,
                    f"merge, second map with <= 2 entries ({nit} entries over all paths; `contains_key` / the previous value returned by "
                    "`insert` modelled as arbitrary): Ok only if NO key of the second map was already defined - for whatever values - and "
                    "then every entry is stored under its own key with its own value and listed in `keys`; a key defined twice is an Err; "
                    "two maps with disjoint keys never give an Err; map-vs-list / scalar operands are an Err")
    if c:
        c["replay"] = replay_param_conflict_values(a)
        c["reproduced"] = c["replay"].get("reproduced", False)
        a.candidates.append(c)


def command_dispatch(a):
    """C06 / C07: between clap and the subcommand nothing is decided. CfnGuard::execute hands its command, writer and reader to
    Commands::execute; Commands::execute calls exactly ONE subcommand's execute - the one of the variant held - with the same writer /
    reader and returns that call's result itself (no mapping of the code, no swallowed Err)."""
    CM = enum_variants(a.src, "commands/mod.rs", "Commands")
    want = {"Validate": r"commands::validate::|Validate", "Test": r"commands::test::|Test", "ParseTree": r"parse_tree|ParseTree",
            "Rulegen": r"rulegen|Rulegen", "Completions": r"completions|Completions"}
    for label, fre, argre in (("Commands", r"commands::<impl at guard/src/commands/mod\.rs:\d+:\d+: \d+:\d+>::execute", r"_1: &Commands"),
                              ("CfnGuard", r"commands::<impl at guard/src/commands/mod\.rs:\d+:\d+: \d+:\d+>::execute", r"_1: &CfnGuard")):
        ex = a.exec(fre, {"execute": m_result_opq}, log=("execute",), unroll=1, max_paths=200, first_arg_re=argre)
        a.fns.append(f"commands::{label}::execute")
        me, wr, rd = ex.arg_env["_1"], ex.arg_env["_2"], ex.arg_env["_3"]
        d_me = disc(ex, me) if label == "Commands" else None
        bad, n = [], 0
        for p in ex.paths:
            r = p.ret
            cs = calls(p, "execute")
            if p.outcome == "panic" or len(cs) != 1 or r != cs[0][3]:
                bad.append(pc_term(p.pc))
                continue
            n += 1
            e = cs[0]
            args, callee = e[2], (e[5] if len(e) > 5 else "")
            if label == "CfnGuard":
                o = origin(ex, args[0]) if args else (None, [])
                good = len(args) == 3 and same(o[0], me) and len(o[1]) == 1 and same(args[1], wr) and same(args[2], rd)
                bad.append(f"(and {pc_term(p.pc)} (not {'true' if good else 'false'}))")
                continue
            # which variant does this callee belong to? (the type of the receiver in the callee's path)
            which = [v for v in CM if re.search(want.get(v, v), callee)]
            o = origin(ex, args[0]) if args else (None, [])
            passes = (len(args) == 1) if which == ["Completions"] else (len(args) == 3 and same(args[1], wr) and same(args[2], rd))
            if len(which) != 1 or not same(o[0], me) or not passes:
                bad.append(pc_term(p.pc))
                continue
            bad.append(f"(and {pc_term(p.pc)} (not (= {d_me} {CM.index(which[0])})))")
            if o[1] != [f"as {which[0]}.0"]:
                bad.append(pc_term(p.pc))
        c = a.discharge(f"commands/{label}::execute/dispatch", ex, bad,
                        f"{label}::execute ({n} calls over all paths): exactly one execute call, of the subcommand held (variant "
                        "discriminant = the callee's own command type), on the payload of that variant, with the writer / reader "
                        "given; the function returns that call's Result itself - exit code and Err unchanged")
        if c:
            c["replay"] = replay_command_codes(a)
            c["reproduced"] = c["replay"].get("reproduced", False)
            a.candidates.append(c)


def replay_command_codes(a):
    """exit codes of the subcommands seen from the process: validate PASS 0 / FAIL 19 / parse error 5, test pass 0 / fail 7,
    parse-tree 0, rulegen 0, completions 0"""
    import os, shutil, subprocess, tempfile
    exe = a.cli()
    if not exe:
        return {"reproduced": False, "note": "native build failed"}
    d = tempfile.mkdtemp(prefix="cfnverif_replay_")
    out = []
    try:
        W = lambda n, t: (open(os.path.join(d, n), "w").write(t), os.path.join(d, n))[1]
        rp = W("p.guard", "rule r { a == 1 }\n"); bad = W("bad.guard", "rule r { a == }\n")
        ok = W("ok.json", "{\"a\": 1}"); ko = W("ko.json", "{\"a\": 2}")
        tp = W("tp.yaml", "- name: t\n  input: {a: 1}\n  expectations:\n    rules:\n      r: PASS\n")
        tf = W("tf.yaml", "- name: t\n  input: {a: 1}\n  expectations:\n    rules:\n      r: FAIL\n")
        tpl = W("tpl.json", "{\"Resources\": {\"b\": {\"Type\": \"AWS::S3::Bucket\", \"Properties\": {\"BucketName\": \"x\"}}}}")
        cases = [(["validate", "-r", rp, "-d", ok], 0), (["validate", "-r", rp, "-d", ko], 19), (["validate", "-r", bad, "-d", ok], 5),
                 (["validate", "-r", rp, "-d", ok, "--structured", "-o", "json", "--show-summary", "none"], 0),
                 (["validate", "-r", rp, "-d", ko, "--structured", "-o", "json", "--show-summary", "none"], 19),
                 (["test", "-r", rp, "-t", tp], 0), (["test", "-r", rp, "-t", tf], 7),
                 (["parse-tree", "-r", rp], 0), (["rulegen", "-t", tpl], 0), (["completions", "-s", "bash"], 0)]
        for argv, want in cases:
            r = subprocess.run([exe] + argv, capture_output=True, text=True, timeout=60)
            if r.returncode != want:
                out.append({"argv": [x.replace(d + "/", "") for x in argv], "exit": r.returncode, "expected": want, "stderr": r.stderr[-200:]})
    finally:
        shutil.rmtree(d, ignore_errors=True)
    return {"reproduced": bool(out), "mismatches": out, "cases": 10}


def validate_params_reach_every_evaluation(a):
    """C17 / C07: the merged input parameters (`extra_data` of Validate::execute) are what EVERY evaluation of this run is given - the
    plain per-rules-file call of evaluate_rule and the StructuredEvaluator, for rules given as files and as a --payload alike. One
    region per call site, started at the site's block with `extra_data` an opaque value E: the parameter argument of the call (the
    `input_params` field of the evaluator built there) must be E itself - not None, not another local."""
    fre = r"commands::validate::<impl at guard/src/commands/validate\.rs:\d+:\d+: \d+:\d+>::execute"
    text = mirsmt.find_fn(a.mir, fre)
    hdr, locs, blocks = mirsmt.parse_fn(text)
    m = re.search(r"debug extra_data => (_\d+);", text)
    sites = [(bb, "evaluate_rule") for bb, sts in blocks.items() if any(re.search(r"= evaluate_rule\(", st) for st in sts)]
    sites += [(bb, "evaluate") for bb, sts in blocks.items() if any(re.search(r"StructuredEvaluator.*::evaluate\(", st) for st in sts)]
    if not m or not sites:
        raise Untranslatable("Validate::execute: no `extra_data` local / no evaluation call site")
    xd = m.group(1)
    a.fns.append("commands::validate::Validate::execute (parameters handed to every evaluation site)")
    for bb, fn in sites:
        mm = dict(mirexec.COMMON_MODELS)
        mm.update({"evaluate_rule": m_result_code, "evaluate": m_result_code, "next": mirexec.m_option, "write_err": mirexec.m_result_unit})
        ex = mirexec.Exec(text, a.enums, mirsmt.consts_of(a.mir), mm, {"evaluate_rule", "evaluate"}, unroll=1, mir=a.mir, max_paths=20000)
        E = ex.opq()
        ex.run_from(bb, stop_blocks={bb}, init_env={xd: E})
        a.npaths += len(ex.paths)
        bad, n = [], 0
        for p in ex.paths:
            cs = [e for e in p.events if e[0] == "call" and e[1] in ("evaluate_rule", "evaluate")]
            if not cs:
                bad.append(pc_term(p.pc))
                continue
            e = cs[0]
            n += 1
            if fn == "evaluate_rule":
                got = e[2][2] if len(e[2]) == 9 else None
            else:
                s = e[2][0] if e[2] else None
                got = s[2].get("input_params") if (s and s[0] == "struct" and isinstance(s[2], dict)) else None
            bad.append(f"(and {pc_term(p.pc)} (not {'true' if same(got, E) else 'false'}))")
        c = a.discharge(f"Validate::execute/{bb}/{fn}/parameters-handed-on", ex, bad,
                        f"Validate::execute, call site {bb} of {fn} ({n} calls over the paths of the region): the input parameters the "
                        "evaluation is given are the run's merged parameters (the local `extra_data`) themselves")
        if c:
            c["replay"] = replay_params_every_entry(a)
            c["reproduced"] = c["replay"].get("reproduced", False)
            a.candidates.append(c)


def replay_params_every_entry(a):
    """a rule that needs a key defined only by the -i file: same exit code (0) for rules / data given by path, as a --payload, each
    plain and --structured; and a key defined by both the parameters and the data is an error in all four"""
    import json, os, shutil, subprocess, tempfile
    exe = a.cli()
    if not exe:
        return {"reproduced": False, "note": "native build failed"}
    d = tempfile.mkdtemp(prefix="cfnverif_replay_")
    out = []
    try:
        W = lambda n, t: (open(os.path.join(d, n), "w").write(t), os.path.join(d, n))[1]
        rule = "rule r { Port == 3306 }\n"
        r, p = W("r.guard", rule), W("p.yaml", "Port: 3306\n")
        for label, doc, want_ok in (("disjoint", "{\"Name\": \"db\"}", True), ("conflict", "{\"Port\": 3306}", False)):
            dj = W(f"{label}.json", doc)
            pay = json.dumps({"rules": [rule], "data": [doc]})
            runs = {"paths": ([exe, "validate", "-r", r, "-d", dj, "-i", p], None),
                    "paths --structured": ([exe, "validate", "-r", r, "-d", dj, "-i", p, "--structured", "-o", "json", "--show-summary", "none"], None),
                    "payload": ([exe, "validate", "--payload", "-i", p], pay),
                    "payload --structured": ([exe, "validate", "--payload", "-i", p, "--structured", "-o", "json", "--show-summary", "none"], pay)}
            for k, (argv, stdin) in runs.items():
                x = subprocess.run(argv, input=stdin, capture_output=True, text=True, timeout=60)
                okrun = (x.returncode == 0) if want_ok else (x.returncode not in (0, 19))
                if not okrun:
                    out.append({"case": label, "entry": k, "exit": x.returncode,
                                "expected": "0 (the rule passes on the union document)" if want_ok else "an error exit (key defined twice)",
                                "stdout": x.stdout[-200:], "stderr": x.stderr[-200:]})
    finally:
        shutil.rmtree(d, ignore_errors=True)
    return {"reproduced": bool(out), "mismatches": out, "cases": 8}


BUILDER_TEST = r'''
// written by /verif (replay of a library-builder candidate); lives only in the scratch copy
use cfn_guard::commands::{Executable, validate::ShowSummaryType};
use cfn_guard::utils::reader::{ReadBuffer, Reader};
use cfn_guard::utils::writer::{WriteBuffer, Writer};
use cfn_guard::{CommandBuilder, ValidateBuilder};
use std::io::Cursor;
fn run(rules: &str, data_path: Option<&str>, stdin: &str, params: &[&str]) -> String {
    let mut b = ValidateBuilder::default().rules(vec![rules.to_string()]).show_summary(vec![ShowSummaryType::None]);
    if let Some(d) = data_path { b = b.data(vec![d.to_string()]); }
    if !params.is_empty() { b = b.input_params(params.iter().map(|s| s.to_string()).collect()); }
    let cmd = match b.try_build() { Ok(c) => c, Err(e) => return format!("BUILD-ERR {}", e).replace('\n', " ") };
    let mut reader = Reader::new(ReadBuffer::Cursor(Cursor::new(stdin.as_bytes().to_vec())));
    let mut writer = Writer::new(WriteBuffer::Vec(vec![])).expect("writer");
    match cmd.execute(&mut writer, &mut reader) { Ok(c) => format!("OK {}", c), Err(_) => "ERR".to_string() }
}
#[test]
fn zz_verif_builder() {
    let d = "__DIR__";
    let p = |n: &str| format!("{}/{}", d, n);
    println!("VERIF-BLD union_stdin {}", run(&p("r.guard"), None, "{\"Name\": \"db\", \"Port\": 3306}", &[]));
    println!("VERIF-BLD path_params {}", run(&p("r.guard"), Some(&p("d.json")), "", &[&p("p.yaml")]));
    println!("VERIF-BLD stdin_params {}", run(&p("r.guard"), None, "{\"Name\": \"db\"}", &[&p("p.yaml")]));
    println!("VERIF-BLD stdin_two_params {}", run(&p("r2.guard"), None, "{\"Name\": \"db\"}", &[&p("p.yaml"), &p("q.yaml")]));
    println!("VERIF-BLD path_conflict {}", run(&p("r.guard"), Some(&p("c.json")), "", &[&p("p.yaml")]));
    println!("VERIF-BLD stdin_conflict {}", run(&p("r.guard"), None, "{\"Port\": 3306}", &[&p("p.yaml")]));
}
'''


def replay_builder(a):
    """the library builder: a rule that needs a key defined only by a parameter file, data by path and data on STDIN - same code as
    the union document; a key defined by both the parameters and the data is an error either way"""
    import os, shutil, subprocess, tempfile
    d = tempfile.mkdtemp(prefix="cfnverif_replay_")
    tfile = os.path.join(a.src, "guard", "tests", "zz_verif_builder.rs")
    env = dict(os.environ)
    env["CARGO_NET_OFFLINE"] = "true"
    env["RUST_BACKTRACE"] = "0"
    base = os.path.basename(a.src.rstrip("/"))
    env["CARGO_TARGET_DIR"] = os.path.join(os.path.dirname(a.src.rstrip("/")), "native-target" if base == "src" else "native-target-" + base)
    env.pop("RUSTUP_TOOLCHAIN", None)
    try:
        for n, t in (("r.guard", "rule r { Port == 3306 }\n"), ("r2.guard", "rule r { Port == 3306\n Host == \"h\" }\n"), ("p.yaml", "Port: 3306\n"),
                     ("q.yaml", "Host: h\n"), ("d.json", "{\"Name\": \"db\"}"), ("c.json", "{\"Port\": 3306}")):
            open(os.path.join(d, n), "w").write(t)
        open(tfile, "w").write(BUILDER_TEST.replace("__DIR__", d))
        pr = subprocess.run(["cargo", "test", "--offline", "-p", "cfn-guard", "--test", "zz_verif_builder", "--", "--nocapture"], cwd=a.src,
                            env=env, capture_output=True, text=True, timeout=1800)
    finally:
        if os.path.exists(tfile):
            os.remove(tfile)
        shutil.rmtree(d, ignore_errors=True)
    got = dict(re.findall(r"^VERIF-BLD (\w+) (.*)$", pr.stdout, re.M))
    if len(got) != 6:
        return {"reproduced": False, "note": "builder replay did not run: " + (pr.stderr or pr.stdout)[-400:]}
    want = {"union_stdin": "OK 0", "path_params": "OK 0", "stdin_params": "OK 0", "stdin_two_params": "OK 0", "path_conflict": "ERR", "stdin_conflict": "ERR"}
    out = [{"case": k, "expected": w, "observed": got[k]} for k, w in want.items() if got[k] != w]
    return {"reproduced": bool(out), "mismatches": out, "cases": list(want)}


def validate_builder_passes_fields(a):
    """C17 / C07 (library entry): ValidateBuilder::try_build either refuses (Err) or returns a Validate whose EVERY field is the
    builder's field of the same name, unchanged - the input parameters, the data and rules paths and all flags reach the command
    exactly as the CLI's clap parser would have filled them in."""
    VB = struct_fields(a.src, "lib.rs", "ValidateBuilder")
    ex = a.exec(r"<impl at guard/src/lib\.rs:\d+:\d+: \d+:\d+>::try_build",
                {"any": lambda ex, av: ex.havoc("bool"), "is_empty": lambda ex, av: ex.havoc("bool"), "eq": lambda ex, av: ex.havoc("bool")},
                unroll=1, max_paths=4000, first_arg_re=r"_1: ValidateBuilder")
    a.fns.append("ValidateBuilder::try_build (lib.rs)")
    me = ex.arg_env["_1"]
    bad, n = [], 0
    for p in ex.paths:
        r = p.ret
        if p.outcome != "return" or not r or r[0] != "enum" or r[1] != "Result":
            bad.append(pc_term(p.pc))
            continue
        okv = r[3].get("Ok") if isinstance(r[3], dict) else None
        if okv is None or okv[0] != "struct" or not isinstance(okv[2], dict):
            # an Err path: constrained only in that it is not the Ok variant
            bad.append(f"(and {pc_term(p.pc)} (= {r[2]} 0))")
            continue
        n += 1
        probs = [f for f in VB if f not in okv[2]] + [f for f in okv[2] if f not in VB]
        for f, v in okv[2].items():
            if f in VB and not same(ex.proj.get((me[1], f".{VB.index(f)}")), v):
                probs.append(f)
        bad.append(f"(and {pc_term(p.pc)} (= {r[2]} 0) {'true' if probs else 'false'})")
    c = a.discharge("ValidateBuilder::try_build/fields-passed-on", ex, bad,
                    f"library builder ({n} Ok paths, {len(VB)} fields): an Ok result holds, field by field, the builder's own value of "
                    "the field of the same name (rules, data, input_params, template_type, output_format, show_summary and the six flags)")
    if c:
        c["replay"] = replay_builder(a)
        c["reproduced"] = c["replay"].get("reproduced", False)
        a.candidates.append(c)


def merge_list(a):
    """C17 `nothing is lost`: the list / list arm of PathAwareValue::merge. Two lists merge into the receiver's own vector extended,
    once, by the second list's own vector (all of it, in its order: Vec::extend is std's); nothing else is stored or dropped and the
    result is Ok(receiver). An `extend` anywhere else (other kinds, a different vector, a second call) refutes."""
    PV = enum_variants(a.src, "rules/path_value.rs", "PathAwareValue")
    MAP, LIST = PV.index("Map"), PV.index("List")
    ex = a.exec(r"(?:rules::)?path_value::<impl at guard/src/rules/path_value\.rs:\d+:\d+: \d+:\d+>::merge",
                {"contains_key": lambda ex, av: ("bool", ex.fresh("Bool", "has")), "insert": mirexec.m_option,
                 "next": mirexec.m_iter_next, "into_iter": mirexec.m_new_iter, "iter": mirexec.m_new_iter,
                 "is_null": lambda ex, av: ("bool", ex.fresh("Bool", "isnull")), "extend_str": lambda ex, av: ex.opq()},
                log=("push", "extend", "append", "extend_from_slice", "truncate", "clear", "retain", "dedup", "drain", "pop",
                     "reverse", "sort", "swap_remove", "remove"), unroll=2, max_paths=40000)
    a.fns.append("rules::path_value::PathAwareValue::merge (list arm)")
    me, other = ex.arg_env["_1"], ex.arg_env["_2"]
    d_me, d_ot = disc(ex, me), disc(ex, other)
    both_lists = f"(and (= {d_me} {LIST}) (= {d_ot} {LIST}))"
    MUT = ("extend", "append", "extend_from_slice", "truncate", "clear", "retain", "dedup", "drain", "pop", "reverse", "sort",
           "swap_remove", "remove", "insert", "push")
    bad, n = [], 0
    for p in ex.paths:
        r = p.ret
        if p.outcome == "panic" or not r or r[0] != "enum" or r[1] != "Result":
            bad.append(pc_term(p.pc))
            continue
        muts = [e for e in p.events if e[0] == "call" and e[1] in MUT]
        exts = [e for e in muts if e[1] == "extend"]
        ok_shape = False
        if len(muts) == 1 and len(exts) == 1 and len(exts[0][2]) == 2:
            o1, o2 = origin(ex, exts[0][2][0]), origin(ex, exts[0][2][1])
            ok_shape = (same(o1[0], me) and o1[1] == ["as List.0", ".1"] and same(o2[0], other) and o2[1] == ["as List.0", ".1"])
        n += len(exts)
        okv = r[3].get("Ok") if isinstance(r[3], dict) else None
        ret_me = okv is not None and same(okv, me)
        good_lists = f"(and (= {r[2]} 0) {'true' if (ok_shape and ret_me) else 'false'})"
        # outside the list / list case no vector operation of the list arm may happen
        stray = "true" if not exts else "false"
        bad.append(f"(and {pc_term(p.pc)} (not (ite {both_lists} {good_lists} {stray})))")
    c = a.discharge("PathAwareValue::merge/lists", ex, bad,
                    f"merge of two lists ({n} extend calls over all paths): the receiver's own vector is extended exactly once by the "
                    "second list's own vector (std's Vec::extend: every element, in order), no other vector operation (truncate / "
                    "dedup / retain / pop / insert ...) on the path, result Ok(receiver); no extend unless both operands are lists")
    if c:
        c["replay"] = replay_param_lists(a)
        c["reproduced"] = c["replay"].get("reproduced", False)
        a.candidates.append(c)


def replay_param_lists(a):
    """list-valued documents merged with list-valued parameters (-i): every element of both must be visible to a rule, duplicates
    and order included"""
    import os, shutil, subprocess, tempfile
    exe = a.cli()
    if not exe:
        return {"reproduced": False, "note": "native build failed"}
    d = tempfile.mkdtemp(prefix="cfnverif_replay_")
    out = []
    try:
        cases = [("[1, 2]", "[3]", "[1, 2, 3]"), ("[1, 1]", "[1]", "[1, 1, 1]"), ("[]", "[7, 7]", "[7, 7]"), ("[5]", "[]", "[5]"),
                 ("[3, 1]", "[2, 1]", "[3, 1, 2, 1]"), ("[[1]]", "[[1]]", "[[1], [1]]"), ("[{\"a\": 1}]", "[{\"a\": 1}]", "[{\"a\": 1}, {\"a\": 1}]")]
        for i, (par, doc, want) in enumerate(cases):
            pf, df, rf = (os.path.join(d, f"p{i}.json"), os.path.join(d, f"d{i}.json"), os.path.join(d, f"r{i}.guard"))
            open(pf, "w").write(par); open(df, "w").write(doc)
            open(rf, "w").write(f"rule all_there {{ this == {want} }}\n")
            r = subprocess.run([exe, "validate", "-r", rf, "-d", df, "-i", pf], capture_output=True, text=True, timeout=60)
            if r.returncode != 0:
                out.append({"parameters": par, "document": doc, "expected_merged": want, "exit": r.returncode,
                            "stdout": r.stdout[-300:], "stderr": r.stderr[-200:]})
    finally:
        shutil.rmtree(d, ignore_errors=True)
    return {"reproduced": bool(out), "mismatches": out, "cases": 7}


def replay_param_conflict_values(a):
    """the same top-level key in two sources, for every kind of first / second value (null, scalar, list, map), in both
    orders and as parameter-vs-parameter and parameter-vs-document: always an error exit, never a silent choice"""
    import itertools, os, shutil, subprocess, tempfile
    exe = a.cli()
    if not exe:
        return {"reproduced": False, "note": "native build failed"}
    vals = ["null", "1", "\"s\"", "[1]", "{\"k\": 1}", "false", "\"\""]
    d = tempfile.mkdtemp(prefix="cfnverif_replay_")
    out = []
    try:
        open(os.path.join(d, "r.guard"), "w").write("rule r { b == 1 }\n")
        open(os.path.join(d, "plain.json"), "w").write('{"b": 1}\n')
        env = dict(os.environ)
        env["RUST_BACKTRACE"] = "0"
        for v1, v2 in itertools.product(vals, repeat=2):
            open(os.path.join(d, "p1.json"), "w").write('{"a": %s}\n' % v1)
            open(os.path.join(d, "p2.json"), "w").write('{"a": %s}\n' % v2)
            open(os.path.join(d, "dd.json"), "w").write('{"a": %s, "b": 1}\n' % v2)
            for label, cmd in (("two parameter files", ["-d", "plain.json", "-i", "p1.json", "-i", "p2.json"]),
                               ("parameter file and document", ["-d", "dd.json", "-i", "p1.json"])):
                full = [exe, "validate", "-r", os.path.join(d, "r.guard")] + [os.path.join(d, x) if x.endswith(".json") else x for x in cmd]
                p = subprocess.run(full, stdout=subprocess.PIPE, stderr=subprocess.PIPE, text=True, timeout=120, env=env, cwd=d)
                if p.returncode in (0, 19, 101):
                    out.append({"sources": label, "first_value": v1, "second_value": v2, "expected": "an error exit", "observed_exit": p.returncode})
        return {"reproduced": bool(out), "mismatches": out[:5], "pairs_tried": len(vals) ** 2 * 2}
    finally:
        shutil.rmtree(d, ignore_errors=True)


def replay_params_modes(a):
    """input parameters (-i) with one and several data files, map and list documents: the plain run and the --structured
    run must give every data file the same status and the same exit code (the plain JSON report is the reference)"""
    import os, shutil, subprocess, tempfile
    exe = a.cli()
    if not exe:
        return {"reproduced": False, "note": "native build failed"}
    cases = {
        "maps, rule needs the parameter on every file": ("rule r {\n  p == 1\n  a exists\n}\n", '{"p":\n 1}\n', ['{"a":\n 1}\n', '{"a":\n 2}\n', '{"a":\n 3}\n']),
        "empty data document, rule needs the parameter": ("rule r {\n  p == 1\n}\n", '{"p":\n 1}\n', ['{}\n', '{"a":\n 1}\n']),
        "lists, rule looks at position 0": ("rule first {\n  this[0].kind == \"baseline\"\n}\n", '[ {"kind":\n "baseline"} ]\n', ['[ {"kind":\n "workload"} ]\n']),
        "lists, rule looks at the last position": ("rule last {\n  this[1].kind == \"workload\"\n}\n", '[ {"kind":\n "baseline"} ]\n', ['[ {"kind":\n "workload"} ]\n', '[ {"kind":\n "workload"} ]\n']),
    }
    d = tempfile.mkdtemp(prefix="cfnverif_replay_")
    env = dict(os.environ)
    env["RUST_BACKTRACE"] = "0"
    out, tried = [], []
    try:
        for label, (rules, params, datas) in cases.items():
            open(os.path.join(d, "r.guard"), "w").write(rules)
            open(os.path.join(d, "p.json"), "w").write(params)
            args = ["validate", "-r", "r.guard", "-i", "p.json"]
            for i, t in enumerate(datas):
                open(os.path.join(d, f"d{i}.json"), "w").write(t)
                args += ["-d", f"d{i}.json"]
            pl = subprocess.run([exe] + args + ["-o", "json", "--show-summary", "none"], cwd=d, capture_output=True, text=True, env=env, timeout=120)
            stt = subprocess.run([exe] + args + ["--structured", "-o", "json", "--show-summary", "none"], cwd=d, capture_output=True, text=True, env=env, timeout=120)
            plain, dec, txt, i = {}, json.JSONDecoder(), pl.stdout, 0
            try:
                while i < len(txt):
                    while i < len(txt) and txt[i].isspace():
                        i += 1
                    if i >= len(txt):
                        break
                    o, i = dec.raw_decode(txt, i)
                    plain[os.path.basename(o["name"])] = o["status"]
                struct = {os.path.basename(o["name"]): o["status"] for o in json.loads(stt.stdout)}
            except Exception as e:
                tried.append({"case": label, "problem": f"no report ({e})", "exits": [pl.returncode, stt.returncode]})
                continue
            ok = plain == struct and pl.returncode == stt.returncode and len(plain) == len(datas)
            tried.append({"case": label, "ok": ok})
            if not ok:
                out.append({"case": label, "rules_file": rules, "parameters": params, "data": datas, "plain": plain, "plain_exit": pl.returncode,
                            "structured": struct, "structured_exit": stt.returncode})
        return {"reproduced": bool(out), "mismatches": out[:3], "tried": tried,
                "note": "; ".join(t["problem"] for t in tried if "problem" in t) or None}
    finally:
        shutil.rmtree(d, ignore_errors=True)


def param_files_fold_step(a):
    """Validate::execute, the loop that folds the --input-parameters files into one document: one step from an arbitrary
    state. Region = from the directory-walk `next()` to the next one."""
    df = struct_fields(a.src, "commands/validate.rs", "DataFile")
    fre = r"commands::validate::<impl at guard/src/commands/validate\.rs:\d+:\d+: \d+:\d+>::execute"
    text = mirsmt.find_fn(a.mir, fre)
    hdr, locs, blocks = mirsmt.parse_fn(text)
    m = re.search(r"debug primary_path_value => (_\d+);", text)
    merge_bbs = [bb for bb, sts in blocks.items() if any(re.search(r"PathAwareValue::merge\(", st) for st in sts)]
    next_bbs = [bb for bb, sts in blocks.items() if any(re.search(r"as Iterator>::next\(", st) and "walkdir" in st for st in sts)]
    if not m or not merge_bbs or not next_bbs:
        raise Untranslatable("Validate::execute: parameter-folding loop not found (primary_path_value / merge / walk next)")
    prim = m.group(1)

    def reaches(start, target):
        seen, todo = set(), [start]
        while todo:
            b = todo.pop()
            for nx in mirsmt.successors(blocks, b):
                if nx == target:
                    return True
                if nx in seen or nx in next_bbs or nx not in blocks:
                    continue
                seen.add(nx)
                todo.append(nx)
        return False
    starts = [bb for bb in next_bbs if any(reaches(bb, mb) for mb in merge_bbs)]
    if len(starts) != 1:
        raise Untranslatable(f"Validate::execute: expected one directory-walk loop around merge, found {len(starts)}")
    start = starts[0]
    mm = dict(mirexec.COMMON_MODELS)
    mm.update({"next": mirexec.m_option, "is_file": lambda ex, av: ("bool", ex.fresh("Bool", "isfile")),
               "has_a_supported_extension": lambda ex, av: ("bool", ex.fresh("Bool", "extok")), "open": m_result_opq,
               "read_to_string": m_result_opq, "build_data_file": m_result_opq, "merge": m_result_opq, "map_or": lambda ex, av: ex.opq(),
               "path": lambda ex, av: ex.opq(), "file_name": lambda ex, av: ex.opq(), "to_str": lambda ex, av: ex.opq()})
    ex = mirexec.Exec(text, a.enums, mirsmt.consts_of(a.mir), mm, {"insert", "contains"}, unroll=1, mir=a.mir, max_paths=20000)
    p0 = ex.fresh_enum("Option", 2, "prim0", {"Some": ex.opq()})
    ex.run_from(start, stop_blocks={start}, init_env={prim: p0})
    a.npaths += len(ex.paths)
    a.fns.append("commands::validate::Validate::execute (folding of --input-parameters files, one step)")
    bad, nfile = [], 0
    for p in ex.paths:
        nx = calls(p, "next")
        isf, ext, bdf, mg = calls(p, "is_file"), calls(p, "has_a_supported_extension"), calls(p, "build_data_file"), calls(p, "merge")
        if not nx:
            bad.append(pc_term(p.pc))
            continue
        cond_file = "(and " + " ".join([f"(= {nx[0][3][2]} 1)"] + [e[3][1] for e in isf + ext]) + ")" if (isf and ext) else "false"
        callee_err = "(or false " + " ".join(f"(= {e[3][2]} 1)" for e in calls(p, "open") + calls(p, "read_to_string") + bdf + mg if e[3][0] == "enum") + ")"
        if p.outcome.startswith("stop"):
            cur = p.env.get(prim)
            if bdf:
                nfile += 1
                pv = field(ex, bdf[0][3][3]["Ok"], df.index("path_value"), "PathAwareValue")
                if mg:
                    ok = (len(mg) == 1 and same(mg[0][2][0], p0[3]["Some"]) and same(mg[0][2][1], pv) and cur is not None and cur[0] == "enum"
                          and cur[2] == "1" and same(cur[3].get("Some"), mg[0][3][3]["Ok"]))
                    good = f"(and (= {p0[2]} 1) (not {callee_err}))" if ok else "false"
                else:
                    ok = cur is not None and cur[0] == "enum" and cur[2] == "1" and same(cur[3].get("Some"), pv)
                    good = f"(and (= {p0[2]} 0) (not {callee_err}))" if ok else "false"
                bad.append(f"(and {pc_term(p.pc)} (not {good}))")
            else:
                # no file was read in this step: only allowed for an entry that is not a supported parameter file; nothing changes
                unchanged = cur == p0
                bad.append(f"(and {pc_term(p.pc)} (not (and (not {cond_file}) {'true' if unchanged else 'false'})))")
        elif p.outcome == "return":
            # a return reached while an entry is being handled (the walk yielded Some): only an error may end the run here;
            # paths on which the walk is exhausted leave the loop and run on to the rest of the function - not constrained
            r = p.ret
            if bdf or mg or calls(p, "open"):
                bad.append(f"(and {pc_term(p.pc)} (= {nx[0][3][2]} 1) (not (and (= {r[2]} 1) {callee_err})))" if (r and r[0] == "enum") else pc_term(p.pc))
    c = a.discharge("Validate::execute/input-parameters-fold-step", ex, bad,
                    f"folding the -i files, one directory entry from an arbitrary state ({nfile} file-reading paths): an entry that is a file "
                    "with a supported extension is always read and built, and its document either becomes the accumulated parameters (none "
                    "so far) or is merged INTO the accumulated parameters (arguments in that order) whose result becomes the new "
                    "accumulation; any other entry changes nothing; a read / build / merge error ends the run with Err - no file is skipped")
    if c:
        c["replay"] = replay_param_files(a)
        c["reproduced"] = c["replay"].get("reproduced", False)
        a.candidates.append(c)


def replay_param_files(a):
    """parameter files given as files and as directories, with equal base names in different directories, in both orders:
    the verdicts are those of the union document; a key defined twice is an error"""
    import os, shutil, subprocess, tempfile
    exe = a.cli()
    if not exe:
        return {"reproduced": False, "note": "native build failed"}
    d = tempfile.mkdtemp(prefix="cfnverif_replay_")
    out = []
    try:
        for sub, txt in (("p1", '{"a": 1}\n'), ("p2", '{"b": 2}\n'), ("p3", '{"a": 9}\n')):
            os.makedirs(os.path.join(d, sub))
            open(os.path.join(d, sub, "params.json"), "w").write(txt)
        open(os.path.join(d, "q.json"), "w").write('{"c": 3}\n')
        open(os.path.join(d, "data.json"), "w").write('{"z": 0}\n')
        open(os.path.join(d, "r.guard"), "w").write("rule r { a == 1 }\nrule s { b == 2 }\nrule t { c == 3 }\nrule u { z == 0 }\n")
        env = dict(os.environ)
        env["RUST_BACKTRACE"] = "0"
        J = lambda *x: os.path.join(d, *x)
        runs = [([J("p1", "params.json"), J("p2", "params.json"), J("q.json")], 0), ([J("p2", "params.json"), J("q.json"), J("p1", "params.json")], 0),
                ([J("p1"), J("p2"), J("q.json")], 0), ([J("q.json"), J("p2"), J("p1")], 0),
                ([J("p1", "params.json"), J("p3", "params.json"), J("p2", "params.json"), J("q.json")], "error"),
                ([J("p3"), J("p1"), J("p2"), J("q.json")], "error")]
        for mode in ([], ["--structured", "-o", "json", "--show-summary", "none"]):
            for params, want in runs:
                cmd = [exe, "validate", "-r", J("r.guard"), "-d", J("data.json")] + mode
                for pf in params:
                    cmd += ["-i", pf]
                p = subprocess.run(cmd, stdout=subprocess.PIPE, stderr=subprocess.PIPE, text=True, timeout=120, env=env)
                ok = (p.returncode == 0) if want == 0 else (p.returncode not in (0, 19, 101))
                if not ok:
                    out.append({"mode": mode[:1] or ["plain"], "parameters": [x[len(d) + 1:] for x in params], "expected": "exit 0 (all four rules PASS on the union)" if want == 0 else "an error exit (key `a` defined twice)",
                                "observed_exit": p.returncode})
        return {"reproduced": bool(out), "mismatches": out[:4]}
    finally:
        shutil.rmtree(d, ignore_errors=True)


def data_input_params_wiring(a):
    """plain validate WITH input parameters: every document is merged with a fresh copy of the parameters"""
    df = struct_fields(a.src, "commands/validate.rs", "DataFile")
    holder = {}

    def prep(ex):
        extra = ex.opq()
        holder["extra"] = extra
        return {"_7": ("bool", "false"), "_8": ("bool", "false"), "_3": ("enum", "Option", "1", {"Some": extra})}
    ex = a.exec(r"(?:commands::validate::)?evaluate_against_data_input",
                {"root_scope": m_scope, "eval_rules_file": mirexec.m_result_status, "is_empty": lambda ex, av: ("bool", "true"),
                 "report_eval": mirexec.m_result_unit, "next": mirexec.m_iter_next, "into_iter": mirexec.m_new_iter,
                 "iter": mirexec.m_new_iter, RC_NEW: mirexec.m_identity, "from": lambda ex, av: ex.opq(), "merge": m_result_opq},
                unroll=2, max_paths=40000, prep=prep)
    a.fns.append("commands::validate::evaluate_against_data_input (with input parameters)")
    rules, files, extra = ex.arg_env["_5"], ex.arg_env["_4"], holder["extra"]
    bad, n = [], 0
    for p in ex.paths:
        its = iterations(ex, p, it_filter=lambda ev: ex.iter_src.get(ev[2][0][1], ev[2][0]) == files)
        bounds = [i for _k, _e, _t, i in its] + [len(p.events)]
        probs = []
        for j, (k, el, tag, i0) in enumerate(its):
            seg = [e for i, e in enumerate(p.events) if bounds[j] <= i < bounds[j + 1] and e[0] == "call"]
            mg = [e for e in seg if e[1] == "merge"]
            sc = [e for e in seg if e[1] == "root_scope"]
            if not mg and not sc:
                continue
            n += 1
            pv = field(ex, el, df.index("path_value"), "PathAwareValue") if el is not None and el[0] == "opaque" else None
            if not (len(mg) == 1 and same(mg[0][2][0], extra) and same(mg[0][2][1], pv)):
                probs.append("a document is not merged as (copy of the parameters).merge(this document)")
            elif sc and not (len(sc) == 1 and same(sc[0][2][0], rules) and same(sc[0][2][1], mg[0][3][3]["Ok"])):
                probs.append("the scope is not built from the merged document of this iteration")
        bad.append(pc_term(p.pc) if probs else "false")
    c = a.discharge("evaluate_against_data_input/parameters-merged-per-document", ex, bad,
                    f"plain validate with input parameters, <= 2 documents ({n} merges): each document is merged with the ORIGINAL "
                    "parameters (never with the result of an earlier merge) and its scope is built from exactly that merged value",
                    witness=False)
    if c:
        c["replay"] = replay_param_conflict(a)
        if not c["replay"].get("reproduced"):
            c["replay"] = replay_params_modes(a)
        c["reproduced"] = c["replay"].get("reproduced", False)
        a.candidates.append(c)


def structured_merge_closure(a):
    """--structured: the closure that merges the parameters into each document"""
    df = struct_fields(a.src, "commands/validate.rs", "DataFile")
    SE = struct_fields(a.src, "commands/reporters/validate/structured.rs", "StructuredEvaluator")
    pat = r"reporters::validate::structured::<impl at guard/src/commands/reporters/validate/structured\.rs:\d+:\d+: \d+:\d+>::evaluate::\{closure#(\d+)\}"
    found = None
    for m in re.finditer(r"^fn (" + pat + r")\(", a.mir, re.M):
        text = mirsmt.find_fn(a.mir, re.escape(m.group(1)))
        if re.search(r"::merge\(", text):
            found = m.group(1)
    if not found:
        a.ob.items.append({"obligation": "structured/merge-closure", "describe": "no closure of StructuredEvaluator::evaluate calls merge",
                           "verdicts": {}, "status": "inconclusive", "model": None})
        return
    ex = a.exec(re.escape(found), {"merge": m_result_opq, "to_owned": mirexec.m_identity, "default": lambda ex, av: ex.opq()},
                log=("push",), unroll=1, max_paths=2000)
    a.fns.append("commands::reporters::validate::structured::StructuredEvaluator::evaluate::{closure} (parameter merge, wiring)")
    envv, acc, file_ = ex.arg_env["_1"], ex.arg_env["_2"], ex.arg_env["_3"]
    bad = []
    for p in ex.paths:
        if p.outcome != "return":
            continue
        mg = calls(p, "merge")
        pushes = [e for e in calls(p, "push") if len(e[2]) == 2]
        pv = field(ex, file_, df.index("path_value"), "PathAwareValue")
        probs = []
        r = p.ret
        errored = bool(mg) and r is not None and r[0] == "enum" and r[1] == "Result"
        if mg:
            # receiver: the evaluator's own parameters (through the captured self), argument: this document
            recv_ok = False
            i = mg[0][2][0][1] if mg[0][2][0][0] == "opaque" else None
            for _d in range(12):
                if i is None:
                    break
                if i == envv[1]:
                    recv_ok = True
                    break
                i = next((k[0] for k, v in ex.proj.items() if isinstance(k, tuple) and len(k) == 2 and isinstance(k[0], int) and v == ("opaque", i)), None)
            if not (len(mg) == 1 and recv_ok and same(mg[0][2][1], pv)):
                probs.append("merge is not (copy of the evaluator's parameters).merge(this document)")
        if len(pushes) == 1:
            d_ = pushes[0][2][1]
            want = mg[0][3][3]["Ok"] if mg else pv
            if not (d_[0] == "struct" and same(d_[2].get("path_value"), want) and same(d_[2].get("name"), field(ex, file_, df.index("name"), "String"))):
                probs.append("the merged document is not stored under this document's own name")
        elif not (mg and r is not None and r[0] == "enum" and r[1] == "Result"):
            probs.append("a document is dropped")
        bad.append(pc_term(p.pc) if probs else "false")
    c = a.discharge("structured/merge-closure/wiring", ex, bad,
                    "--structured, one document: merged (if parameters were given) with a copy of the evaluator's own parameters and stored "
                    "under its own name; without parameters the document itself is stored; a document is dropped only when its merge fails",
                    witness=False)
    if c:
        c["replay"] = replay_batch(a)
        if not c["replay"].get("reproduced"):
            c["replay"] = replay_param_conflict(a)
        if not c["replay"].get("reproduced"):
            c["replay"] = replay_params_modes(a)
        c["reproduced"] = c["replay"].get("reproduced", False)
        a.candidates.append(c)


def merge_unwrap(a):
    """`--structured` path: the closure that merges the input parameters into every document must not unwrap a failing merge"""
    pat = r"reporters::validate::structured::<impl at guard/src/commands/reporters/validate/structured\.rs:\d+:\d+: \d+:\d+>::evaluate::\{closure#(\d+)\}"
    found = []
    for m in re.finditer(r"^fn (" + pat + r")\(", a.mir, re.M):
        text = mirsmt.find_fn(a.mir, re.escape(m.group(1)))
        if re.search(r"::merge\(", text):
            found.append((m.group(1), text))
    if not found:
        a.ob.items.append({"obligation": "structured/merge-site", "describe": "no closure of StructuredEvaluator::evaluate calls merge "
                           "(restructured): nothing to examine here", "verdicts": {}, "status": "proved-no-site", "model": None})
        return
    for name, text in found:
        mm = dict(mirexec.COMMON_MODELS)
        mm.update({"merge": m_result_opq})
        ex = mirexec.Exec(text, a.enums, mirsmt.consts_of(a.mir), mm, {"unwrap", "expect"}, unroll=1, mir=a.mir, max_paths=20000)
        ex.run()
        a.npaths += len(ex.paths)
        a.fns.append("commands::reporters::validate::structured::StructuredEvaluator::evaluate::{closure} (parameter merge)")
        bad, n = [], 0
        for p in ex.paths:
            for e in p.events:
                if e[0] == "call" and e[1] in ("unwrap", "expect") and e[2] and e[2][0][0] == "enum" and e[2][0][1] == "Result":
                    n += 1
                    bad.append(f"(and {pc_term(p.pc[:e[4]])} (= {e[2][0][2]} 1))")
            if p.outcome == "panic":
                bad.append(pc_term(p.pc))
        c = a.discharge("structured/merge-never-unwrapped-on-error", ex, bad,
                        f"--structured: merging the input parameters into a document ({n} unwrap/expect sites on a fallible result): a "
                        "merge conflict (Err) is never unwrapped into a panic", witness=False)
        if c:
            c["replay"] = replay_param_conflict(a)
            c["reproduced"] = c["replay"].get("reproduced", False)
            a.candidates.append(c)


def replay_param_conflict(a):
    """an input-parameter file and the document define the same top-level key: the run must end with an error exit
    (not 0, not 19) and must not panic, in plain and in --structured mode"""
    import os, shutil, subprocess, tempfile
    exe = a.cli()
    if not exe:
        return {"reproduced": False, "note": "native build failed"}
    d = tempfile.mkdtemp(prefix="cfnverif_replay_")
    out = []
    try:
        open(os.path.join(d, "p.json"), "w").write('{"a": 1}\n')
        open(os.path.join(d, "q.json"), "w").write('{"c": 3}\n')
        open(os.path.join(d, "d.json"), "w").write('{"a": 2,\n "b": 1}\n')
        open(os.path.join(d, "e.json"), "w").write('{"b": 1}\n')
        open(os.path.join(d, "r.guard"), "w").write("rule r { a == 1 }\nrule s { b == 1 }\n")
        env = dict(os.environ)
        env["RUST_BACKTRACE"] = "0"
        for mode in ([], ["--structured", "-o", "json", "--show-summary", "none"]):
            for dfile, params, conflict in (("d.json", ["p.json"], True), ("e.json", ["p.json"], False), ("e.json", ["p.json", "q.json"], False),
                                            ("e.json", ["q.json", "p.json"], False), ("d.json", ["q.json", "p.json"], True)):
                cmd = [exe, "validate", "-r", os.path.join(d, "r.guard"), "-d", os.path.join(d, dfile)] + mode
                for pf in params:
                    cmd += ["-i", os.path.join(d, pf)]
                p = subprocess.run(cmd, stdout=subprocess.PIPE, stderr=subprocess.PIPE, text=True, timeout=120, env=env)
                rc = p.returncode
                if conflict and (rc in (0, 19, 101) or "panicked" in p.stderr):
                    out.append({"mode": mode[:1] or ["plain"], "document": dfile, "parameters": params, "expected": "an error exit, no panic",
                                "observed_exit": rc, "stderr": p.stderr[-200:]})
                if not conflict and rc != 0:
                    out.append({"mode": mode[:1] or ["plain"], "document": dfile, "parameters": params, "expected": "exit 0 (a == 1 from the parameters, b == 1 from the data)",
                                "observed_exit": rc, "stderr": p.stderr[-200:]})
        return {"reproduced": bool(out), "mismatches": out[:4]}
    finally:
        shutil.rmtree(d, ignore_errors=True)


# --------------------------------------------------------------------------------------------------
# C15: variable resolution through the scope chain, parameterised rule calls
# --------------------------------------------------------------------------------------------------
# --------------------------------------------------------------------------------------------------
# C15 / C01: which scope each part of a block is evaluated in
# --------------------------------------------------------------------------------------------------
def origin(ex, v):
    """(root value, [projection keys]) : where an opaque value was read from (field / payload / element projections)"""
    rev = {}
    for (b, k), val in ex.proj.items():
        if isinstance(val, tuple) and val and val[0] == "opaque" and isinstance(b, int):
            rev[val[1]] = (b, k)
    keys = []
    while v is not None and v[0] == "opaque" and v[1] in rev:
        b, k = rev[v[1]]
        keys.append(k)
        v = ("opaque", b)
    return v, list(reversed(keys))


def scope_discipline(a):
    """C15: `a block-level variable is evaluated against the block's current value, an outer one against the scope where it is
    defined`: the `when` conditions of a rule / type block / inner when block run in the ENCLOSING scope (the resolver the function
    was given), the body of a block runs in a scope built by block_scope(THIS block, current root, enclosing scope), and per selected
    value the enclosing scope is wrapped in a ValueScope whose root is THAT value"""
    EV = r"(?:(?:rules::)?eval::)?"
    QR = enum_variants(a.src, "rules/mod.rs", "QueryResult")
    LIT, RES = QR.index("Literal"), QR.index("Resolved")
    BLK = struct_fields(a.src, "rules/exprs.rs", "Block")
    RULE = struct_fields(a.src, "rules/exprs.rs", "Rule")
    TB = struct_fields(a.src, "rules/exprs.rs", "TypeBlock")
    BGC = struct_fields(a.src, "rules/exprs.rs", "BlockGuardClause")
    AQ = struct_fields(a.src, "rules/exprs.rs", "AccessQuery")
    models = {"eval_conjunction_clauses": mirexec.m_result_status, "eval_general_block_clause": mirexec.m_result_status,
              "block_scope": lambda ex, av: ex.opq(), "root": lambda ex, av: ex.opq(), "query": m_result_opq, "next": mirexec.m_iter_next}

    def is_arg(ex, v, name, keys=()):
        o, ks = origin(ex, v) if v is not None and v[0] == "opaque" else (None, None)
        return o is not None and o == ex.arg_env.get(name) and ks == list(keys)

    def fn_is(v, name):
        return v is not None and v[0] == "fn" and v[1] == name

    # --- eval_general_block_clause: the block's own scope, parent = the scope given, root = that scope's current root
    ex = a.exec(EV + "eval_general_block_clause", models, unroll=1, max_paths=2000)
    a.fns.append("rules::eval::eval_general_block_clause")
    bad = []
    for p in ex.paths:
        roots, scopes, conj = calls(p, "root"), calls(p, "block_scope"), calls(p, "eval_conjunction_clauses")
        if p.outcome != "return" or len(conj) != 1 or len(scopes) != 1:
            bad.append(pc_term(p.pc))
            continue
        sc, cj = scopes[0], conj[0]
        ok = (is_arg(ex, sc[2][0], "_1") and is_arg(ex, sc[2][2], "_2")
              and any(same(sc[2][1], r[3]) and is_arg(ex, r[2][0], "_2") for r in roots)
              and same(cj[2][1], sc[3]) and is_arg(ex, cj[2][0], "_1", [f".{BLK.index('conjunctions')}"]) and is_arg(ex, cj[2][2], "_3"))
        r = p.ret
        ret_ok = r is not None and r[0] == "enum" and same(r, cj[3])
        bad.append(f"(and {pc_term(p.pc)} (not {'true' if ok and ret_ok else 'false'}))")
    _scope_discharge(a, "eval_general_block_clause/own-scope", ex, bad,
                     "block body: evaluated exactly once, in block_scope(THIS block, root() of the scope given, the scope given), over the "
                     "block's own conjunctions with the evaluator handed in; the result is returned as is")

    # --- inner when block, rule, type block: conditions in the enclosing scope, body handed the enclosing scope
    for fn, label, cond_keys, cond_arg, body_keys, body_arg, res_arg, body_fn in (
            ("eval_when_condition_block", "inner when block", [], "_2", [], "_3", "_4", "eval_guard_clause"),
            ("eval_rule", "rule", [f".{RULE.index('conditions')}", "as Some.0"], "_1", [f".{RULE.index('block')}"], "_1", "_2", "eval_rule_clause")):
        ex = a.exec(EV + fn, models, unroll=1, max_paths=4000)
        a.fns.append("rules::eval::" + fn)
        bad = []
        for p in ex.paths:
            ok = True
            for cj in calls(p, "eval_conjunction_clauses"):
                ok = ok and is_arg(ex, cj[2][0], cond_arg, cond_keys) and is_arg(ex, cj[2][1], res_arg) and fn_is(cj[2][2], "eval_when_clause")
            for b in calls(p, "eval_general_block_clause"):
                ok = ok and is_arg(ex, b[2][0], body_arg, body_keys) and is_arg(ex, b[2][1], res_arg) and fn_is(b[2][2], body_fn)
            ok = ok and not calls(p, "block_scope")
            bad.append(f"(and {pc_term(p.pc)} (not {'true' if ok else 'false'}))")
        _scope_discharge(a, fn + "/scopes", ex, bad,
                         f"{label}: the `when` conditions are evaluated in the scope the function was given (not in a scope of the guarded "
                         "block: its `let`s are not visible to its own guard), the body is handed that same scope and its own block; no other "
                         "scope is created here")

    # --- query block and type block: per selected value a ValueScope { root: THAT value, parent: the scope given }
    for fn, label, body_keys, q_keys, has_cond in (
            ("eval_guard_block_clause", "query block", [f".{BGC.index('block')}"], [f".{BGC.index('query')}", f".{AQ.index('query')}"], False),
            ("eval_type_block_clause", "type block", [f".{TB.index('block')}"], [f".{TB.index('query')}"], True)):
        ex = a.exec(EV + fn, models, unroll=2, max_paths=40000)
        a.fns.append("rules::eval::" + fn)
        bad = []
        for p in ex.paths:
            its = iterations(ex, p)
            idx = {i: el for _k, el, _t, i in its}
            cur, terms, ok = None, [], True
            for i, e in enumerate(p.events):
                if i in idx:
                    cur = idx[i]
                if e[0] != "call":
                    continue
                if e[1] == "query":
                    ok = ok and is_arg(ex, e[2][0], "_2") and is_arg(ex, e[2][1], "_1", q_keys)
                elif e[1] == "eval_conjunction_clauses":
                    ok = ok and has_cond and is_arg(ex, e[2][0], "_1", [f".{TB.index('conditions')}", "as Some.0"]) and is_arg(ex, e[2][1], "_2") \
                        and fn_is(e[2][2], "eval_when_clause")
                elif e[1] == "eval_general_block_clause":
                    sc = e[2][1]
                    if not (sc[0] == "struct" and sc[1] == "ValueScope" and cur is not None and cur[0] == "opaque"
                            and is_arg(ex, sc[2].get("parent"), "_2") and is_arg(ex, e[2][0], "_1", body_keys) and fn_is(e[2][2], "eval_guard_clause")):
                        ok = False
                        continue
                    root = sc[2].get("root")
                    d = disc(ex, cur)
                    r_res = same(root, ex.proj_of(cur, "as Resolved.0"))
                    r_lit = same(root, ex.proj_of(cur, "as Literal.0"))
                    terms.append(f"(or (and (= {d} {RES}) {'true' if r_res else 'false'}) (and (= {d} {LIT}) {'true' if r_lit else 'false'}))")
            good = "(and " + " ".join(terms + ["true" if ok else "false"]) + ")"
            bad.append(f"(and {pc_term(p.pc)} (not {good}))")
        _scope_discharge(a, fn + "/value-scopes", ex, bad,
                         f"{label} over <= 2 selected values: the selection query (the block's own) and the `when` conditions run in the scope "
                         "given; each body evaluation gets ValueScope { root: the value of THIS iteration (the payload of its Resolved / Literal "
                         "entry), parent: the scope given } and the block's own body")
        a.note_cut(fn, ex)


def _scope_discharge(a, name, ex, bad, text):
    c = a.discharge(name, ex, bad, text)
    if c:
        c["replay"] = replay_scopes(a)
        c["reproduced"] = c["replay"].get("reproduced", False)
        a.candidates.append(c)


def replay_scopes(a):
    """variables at file, rule and block level, shadowing, block-level variables against the current value, and `let`s of a guarded
    block that must not be visible to the block's own guard"""
    exe = a.cli()
    if not exe:
        return {"reproduced": False, "note": "native build failed"}
    data = ('{"Size": 80, "Name": "Ab", "Ports": [80, 443],\n "L": [ {"x": 1, "y": 1}, {"x": 2, "y": 2} ],\n'
            ' "R": {"a": {"Type": "A::B::C", "v": 1}, "b": {"Type": "A::B::C", "v": 2}}}\n')
    # several assignments of every kind in one scope: each must be registered (under its own name, with its own value)
    prefix = "let ports = Ports\nlet limit = 10\nlet big = Size\nlet two = 2\nlet first = L[0].x\nlet up = to_upper(Name)\nlet lo = to_lower(Name)\n"
    cases = [
        # guard of an inner when block sees the OUTER variable, the guarded block's own let does not leak into it
        ("when %limit == 10 {\n    let limit = 99\n    Size <= 50\n  }", "FAIL"),
        ("when %limit == 10 {\n    let limit = 99\n    Size == 80\n  }", "PASS"),
        ("when %limit == 99 {\n    let limit = 99\n    Size <= 50\n  }", "SKIP"),
        ("when %big == 80 {\n    let big = L[0].x\n    %big == 1\n  }", "PASS"),
        ("when %big == 1 {\n    let big = L[0].x\n    %big == 1\n  }", "SKIP"),
        # inside the guarded block the inner definition shadows the outer one
        ("when %limit == 10 {\n    let limit = 99\n    %limit == 99\n  }", "PASS"),
        ("when %limit == 10 {\n    let limit = 99\n    %limit == 10\n  }", "FAIL"),
        # block-level variable: evaluated against the block's current value
        ("L[*] {\n    let mine = x\n    %mine == y\n  }", "PASS"),
        ("L[*] {\n    let mine = x\n    %mine == 1\n  }", "FAIL"),
        ("some L[*] {\n    let mine = x\n    %mine == 2\n  }", "PASS"),
        # an outer variable used inside a block is evaluated where it is defined (the document root)
        ("L[*] {\n    %big == 80\n  }", "PASS"),
        ("L[*] {\n    x <= %limit\n  }", "PASS"),
        # nested: guard inside a query block sees the block-level variable of the enclosing block, not of its own body
        ("L[*] {\n    let k = x\n    when %k == 1 {\n      let k = 5\n      y == 1\n    }\n  }", "PASS"),
        ("L[*] {\n    let k = x\n    when %k == 2 {\n      let k = 1\n      y == 1\n    }\n  }", "FAIL"),
        ("L[*] {\n    let k = x\n    when %k == 5 {\n      let k = 5\n      y == 99\n    }\n  }", "SKIP"),
        # every assignment of a scope is there, whatever its position and kind
        ("%two == 2", "PASS"), ("%first == 1", "PASS"), ("%up == \"AB\"", "PASS"), ("%lo == \"ab\"", "PASS"), ("%limit == 10", "PASS"), ("%big == 80", "PASS"),
        ("%two == 10", "FAIL"), ("%first == 80", "FAIL"), ("%lo == \"AB\"", "FAIL"),
        ("L[*] {\n    let p = x\n    let q = y\n    let r = 5\n    let s = 6\n    let u = to_upper(\"a\")\n    let w = to_upper(\"b\")\n"
         "    %p == %q\n    %r == 5\n    %s == 6\n    %u == \"A\"\n    %w == \"B\"\n  }", "PASS"),
        ("L[*] {\n    let p = x\n    let q = y\n    %q == 1\n  }", "FAIL"),
        # an unused variable never influences a verdict
        ("when Size == 80 {\n    let unused = 1\n    Size == 80\n  }", "PASS"),
        # ... not even one whose evaluation would be an error (variables are lazy: `R.%ports` with integer keys is an error when read)
        ("when Size == 80 {\n    let bad = R.%ports\n    Size == 80\n  }", "PASS"),
        ("L[*] {\n    let bad = R.%ports\n    x >= 1\n  }", "PASS"),
        ("L[*] {\n    let bad = R.%ports\n    x >= 2\n  }", "FAIL"),
        ("let bad = R.%ports\n  Size == 80", "PASS"),
    ]
    out = a.replay_cases(exe, data, cases, prefix=prefix)
    # rule-level guard and type-block guard: same discipline
    more = []
    for rules, exp in (
            ("let limit = 10\nrule t when %limit == 10 {\n  let limit = 99\n  Size <= 50\n}\n", "FAIL"),
            ("let limit = 10\nrule t when %limit == 99 {\n  let limit = 99\n  Size <= 50\n}\n", "SKIP"),
            ("let limit = 10\nrule t when %limit == 10 {\n  let limit = 99\n  %limit == 99\n}\n", "PASS"),
            ("let want = 1\nrule t {\n  A::B::C when %want == 1 {\n    let want = 7\n    v >= 1\n  }\n}\n", "PASS"),
            ("let want = 1\nrule t {\n  A::B::C when %want == 7 {\n    let want = 7\n    v >= 1\n  }\n}\n", "SKIP"),
            ("let want = 1\nrule t {\n  A::B::C {\n    let mine = v\n    %mine >= %want\n  }\n}\n", "PASS"),
            ("let want = 2\nrule t {\n  A::B::C {\n    let mine = v\n    %mine >= %want\n  }\n}\n", "FAIL")):
        d2 = data.replace('"R"', '"Resources"')
        rc, rep, err = a.run_structured(exe, rules, [d2])
        if not (rep and isinstance(rep, list) and rep):
            crashed = rc == 101 or "panicked" in (err or "")
            more.append({"rules_file": rules, "expected": exp, "observed": "PANIC (exit %s)" % rc if crashed else "ERROR (exit %s)" % rc, "exit": rc,
                         "stderr": (err or "")[-200:]})
            continue
        r = rep[0]
        got = "PASS" if "t" in r.get("compliant", []) else ("SKIP" if "t" in r.get("not_applicable", []) else "FAIL")
        more.append({"rules_file": rules, "expected": exp, "observed": got})
    badm = [o for o in more if o["observed"] is not None and o["observed"] != o["expected"]]
    out["mismatches"] = out["mismatches"] + badm
    out["cases"] = out["cases"] + more
    out["reproduced"] = bool(out["mismatches"])
    return out



SCOPE_IMPL = r"(?:rules::)?eval_context::<impl at guard/src/rules/eval_context\.rs:\d+:\d+: \d+:\d+>::"


def scope_resolution(a):
    SC = struct_fields(a.src, "rules/eval_context.rs", "Scope")
    AQ = struct_fields(a.src, "rules/exprs.rs", "AccessQuery")
    for label, selfty, has_parent in (("BlockScope", "BlockScope", True), ("RootScope", "RootScope", False)):
        ex = a.exec(SCOPE_IMPL + "resolve_variable",
                    {"get": mirexec.m_option, "query_retrieval": m_result_opq, "resolve_function": m_result_opq,
                     "resolve_variable": m_result_opq, "root": lambda ex, av: ex.opq(), RC_NEW: mirexec.m_identity,
                     "box_assume_init_into_vec_unsafe": mirexec.m_vec_from_array},
                    log=("insert",), unroll=1, max_paths=20000, first_arg_re=r"_1: &mut (?:eval_context::)?" + selfty)
        a.fns.append(f"rules::eval_context::{label}::resolve_variable")
        me, name = ex.arg_env["_1"], ex.arg_env["_2"]
        scope = field(ex, me, 0, "Scope")
        maps = {k: field(ex, scope, SC.index(k), "HashMap") for k in ("literals", "resolved_variables", "function_expressions", "variable_queries")}
        bad = []
        for p in ex.paths:
            r = p.ret
            if not r or r[0] != "enum" or r[1] != "Result":
                bad.append(pc_term(p.pc))
                continue
            gets = calls(p, "get")
            probs = []
            found = {}
            for g in gets:
                which = [k for k, v in maps.items() if same(g[2][0], v)]
                if not which or len(g[2]) < 2 or not same(g[2][1], name):
                    probs.append("lookup in another map / under another name")
                    continue
                found[which[0]] = g[3][2]           # tag term: 1 = Some
            par = calls(p, "resolve_variable")
            qr = calls(p, "query_retrieval")
            parts = []
            if par:
                # the enclosing scope is consulted only when this scope defines nothing by that name (inner shadows outer),
                # with the same name, and its answer is passed on unchanged
                if not has_parent or len(par) != 1 or not same(par[0][2][-1], name) or r != par[0][3] or set(found) != set(maps):
                    probs.append("parent delegation")
                parts += [f"(= {t} 0)" for t in found.values()]
            if qr:
                q = qr[0]
                vq = [g for g in gets if same(g[2][0], maps["variable_queries"])]
                roots = calls(p, "root")
                ok = (len(qr) == 1 and len(q[2]) == 4 and q[2][0] == ("int", "0") and same(q[2][3], me) and vq
                      and ((same(q[2][2], roots[0][3]) and same(roots[0][2][0], me)) if roots
                           else same(q[2][2], field(ex, scope, SC.index("root"), "Rc"))))
                qv = vq[-1][3][3].get("Some") if vq else None
                ok = ok and qv is not None and same(q[2][1], field(ex, qv, AQ.index("query"), "Vec"))
                if not ok:
                    probs.append("variable query is not evaluated from position 0 against this scope's own root with this scope as resolver")
                parts.append(f"(= {vq[-1][3][2]} 1)" if vq else "false")
                parts += [f"(= {found[k]} 0)" for k in ("literals", "resolved_variables") if k in found]
                parts.append(f"(=> (= {q[3][2]} 1) (= {r[2]} 1))")
            if not par and not qr and not calls(p, "resolve_function"):
                # answered from the literals / the cache, or an error because nothing defines the name
                some = "(or false " + " ".join(f"(= {t} 1)" for t in found.values()) + ")"
                parts.append(f"(= (= {r[2]} 0) {some})")
                # a literal is answered as [Literal(that value)] - the literal table is asked FIRST and answers alone - and the cache
                # answers with what it holds; neither writes anything (a literal never becomes a cached query result)
                if calls(p, "insert"):
                    probs.append("a literal / cached answer writes a table")
                lit = [g for g in gets if same(g[2][0], maps["literals"])]
                okv = r[3].get("Ok")
                if "literals" in found and lit and f"(= {found['literals']} 1)" in p.pc:
                    val = lit[0][3][3].get("Some")
                    shape = (okv is not None and okv[0] == "array" and len(okv[1]) == 1 and okv[1][0][0] == "variant" and okv[1][0][2] == "Literal"
                             and okv[1][0][3] == [val] and set(found) == {"literals"})
                    if not shape:
                        probs.append("a literal variable is not answered as [Literal(its value)] by the literal table alone")
                elif "resolved_variables" in found and f"(= {found['resolved_variables']} 1)" in p.pc:
                    cg = [g for g in gets if same(g[2][0], maps["resolved_variables"])]
                    if not (cg and okv is not None and same(okv, cg[0][3][3].get("Some")) and "literals" in found):
                        probs.append("a cached variable is not answered with the cached values (after the literal table said no)")
            good = "false" if probs else "(and true " + " ".join(parts) + ")"
            bad.append(f"(and {pc_term(p.pc)} (not {good}))")
        c = a.discharge(f"{label}::resolve_variable/lookup", ex, bad,
                        f"{label}: a variable is looked up under its own name in this scope's literals, cache, function and query tables; "
                        + ("the enclosing scope is asked (same name, answer passed on unchanged) only if none of them defines it - inner "
                           "definitions shadow outer ones; " if has_parent else "a name nobody defines is an error; ")
                        + "a query variable is evaluated from position 0 against THIS scope's root value with this scope as resolver, and "
                        "an evaluation error is returned as an error")
        if c:
            c["replay"] = replay_variables(a)
            c["reproduced"] = c["replay"].get("reproduced", False)
            a.candidates.append(c)


def replay_variables(a):
    exe = a.cli()
    if not exe:
        return {"reproduced": False, "note": "native build failed"}
    data = '{"a": 1,\n "b": 2, "L": [ {"a": 5, "c": 5}, {"a": 6, "c": 6} ], "M": {"a": 7}}\n'
    cases = [("let v = a\nrule t {\n  %v == 1\n}\n", "PASS"), ("let v = 1\nrule t {\n  a == %v\n}\n", "PASS"),
             ("let v = a\nrule t {\n  let v = b\n  %v == 2\n}\n", "PASS"),
             ("let v = a\nrule t {\n  L[*] {\n    let v = a\n    %v == c\n  }\n}\n", "PASS"),
             ("let v = a\nrule t {\n  L[*] {\n    %v == 1\n  }\n}\n", "PASS"),
             ("let v = a\nrule t {\n  M {\n    let w = a\n    %w == 7\n    %v == 1\n  }\n}\n", "PASS"),
             ("let unused = zzz\nrule t {\n  a == 1\n}\n", "PASS"),
             ("let v = a\nrule t {\n  %v == 1\n  %v == 1\n}\nrule u {\n  %v == 2\n}\n", "PASS")]
    out = []
    for rules, exp in cases:
        rc, rep, err = a.run_structured(exe, rules, [data])
        if not (rep and isinstance(rep, list) and rep):
            out.append({"rules_file": rules, "problem": "no report", "exit": rc, "stderr": (err or "")[-200:]})
            continue
        r = rep[0]
        got = "PASS" if "t" in r.get("compliant", []) else ("SKIP" if "t" in r.get("not_applicable", []) else "FAIL")
        if got != exp:
            out.append({"rules_file": rules, "expected": exp, "observed": got})
    # every reference to a variable sees the same value: using a block-level literal once, twice, or in another order gives the status
    # of the literal written in place (operators whose meaning depends on the operand being a literal: string `in` string, one-element list ==)
    data2 = '{"s1": "audit", "s2": "prod-audit-logs", "one": [1], "n": 1}\n'
    groups = [
        ["rule t {\n  s1 in 'prod-audit-logs'\n  s2 in 'prod-audit-logs'\n}\n",
         "rule t {\n  let f = 'prod-audit-logs'\n  s1 in %f\n  s2 in %f\n}\n", "rule t {\n  let f = 'prod-audit-logs'\n  s2 in %f\n  s1 in %f\n}\n",
         "rule t {\n  let f = 'prod-audit-logs'\n  s1 in %f\n  s1 in %f\n  s2 in %f\n}\n",
         "let f = 'prod-audit-logs'\nrule t {\n  s1 in %f\n  s2 in %f\n}\n"],
        ["rule t {\n  s1 in 'prod-audit-logs'\n}\n", "rule t {\n  let f = 'prod-audit-logs'\n  s1 in %f\n}\n",
         "rule t {\n  let f = 'prod-audit-logs'\n  s1 in %f\n  s1 in %f\n}\n",
         "rule t {\n  when n == 1 {\n    let f = 'prod-audit-logs'\n    s1 in %f\n    s1 in %f\n  }\n}\n"],
        ["rule t {\n  one == [1]\n  n == [1]\n}\n", "rule t {\n  let l = [1]\n  one == %l\n  n == %l\n}\n", "rule t {\n  let l = [1]\n  n == %l\n  one == %l\n}\n"],
    ]
    for g in groups:
        seen = []
        for rules in g:
            rc, rep, err = a.run_structured(exe, rules, [data2])
            if not (rep and isinstance(rep, list) and rep):
                seen.append(f"ERROR (exit {rc})")
                continue
            r = rep[0]
            seen.append("PASS" if "t" in r.get("compliant", []) else ("SKIP" if "t" in r.get("not_applicable", []) else "FAIL"))
        if len(set(seen)) != 1:
            out.append({"equivalent_rule_files": g, "statuses": seen, "expected": "all equal (the first is the literal written in place)", "data": data2})
    real = [o for o in out if "problem" not in o]
    return {"reproduced": bool(real), "mismatches": out[:4], "data": data}


def param_ctx_resolve(a):
    """ResolvedParameterContext::resolve_variable: a parameter name answers with the bound argument - whatever it is, also
    an empty result set - and only other names go to the caller's scope"""
    ex = a.exec(r"(?:rules::)?eval::<impl at guard/src/rules/eval\.rs:\d+:\d+: \d+:\d+>::resolve_variable",
                {"get": mirexec.m_option, "resolve_variable": m_result_opq}, unroll=1, max_paths=2000,
                first_arg_re=r"_1: &mut (?:eval::)?ResolvedParameterContext")
    a.fns.append("rules::eval::ResolvedParameterContext::resolve_variable")
    me, name = ex.arg_env["_1"], ex.arg_env["_2"]
    RPC = struct_fields(a.src, "rules/eval.rs", "ResolvedParameterContext")
    params = field(ex, me, RPC.index("resolved_parameters"), "HashMap")
    bad = []
    for p in ex.paths:
        r = p.ret
        gets = calls(p, "get")
        par = calls(p, "resolve_variable")
        if p.outcome != "return" or r is None or len(gets) != 1 or not same(gets[0][2][0], params) or not same(gets[0][2][1], name):
            bad.append(pc_term(p.pc))
            continue
        bound = f"(= {gets[0][3][2]} 1)"
        if par:
            ok = len(par) == 1 and same(par[0][2][-1], name) and r == par[0][3]
            bad.append(f"(and {pc_term(p.pc)} (not (and (not {bound}) {'true' if ok else 'false'})))")
        else:
            ok = r[0] == "enum" and r[1] == "Result" and r[2] == "0" and same(r[3].get("Ok"), gets[0][3][3].get("Some"))
            bad.append(f"(and {pc_term(p.pc)} (not (and {bound} {'true' if ok else 'false'})))")
    c = a.discharge("ResolvedParameterContext::resolve_variable/binding-wins", ex, bad,
                    "inside a parameterised rule: a name that is a parameter always answers with exactly the bound argument value (no "
                    "condition on what that value is - an empty selection stays empty); any other name is looked up in the caller's scope "
                    "under the same name and that answer is passed on unchanged")
    if c:
        c["replay"] = replay_param_rules(a)
        c["reproduced"] = c["replay"].get("reproduced", False)
        a.candidates.append(c)


def param_rule_call(a):
    PR = struct_fields(a.src, "rules/exprs.rs", "ParameterizedRule")
    PC = struct_fields(a.src, "rules/exprs.rs", "ParameterizedNamedRuleClause")
    ex = a.exec(r"(?:(?:rules::)?eval::)?eval_parameterized_rule_call",
                {"find_parameterized_rule": m_result_opq, "query": m_result_opq, "resolve_function": m_result_opq,
                 "eval_rule": mirexec.m_result_status, "next": mirexec.m_iter_next, "iter": mirexec.m_new_iter,
                 "into_iter": mirexec.m_new_iter, "as_str": mirexec.m_identity, RC_NEW: mirexec.m_identity,
                 "with_capacity": lambda ex, av: ex.opq(), "box_assume_init_into_vec_unsafe": mirexec.m_vec_from_array},
                log=("insert",), unroll=2, max_paths=40000)
    a.fns.append("rules::eval::eval_parameterized_rule_call")
    GNC = struct_fields(a.src, "rules/exprs.rs", "GuardNamedRuleClause")
    neg = field(ex, field(ex, ex.arg_env["_1"], PC.index("named_rule"), "GuardNamedRuleClause"), GNC.index("negation"), "bool")[1]
    bad, nins = [], 0
    for p in ex.paths:
        r = p.ret
        if p.outcome == "panic":
            bad.append(pc_term(p.pc))        # parameter_names[idx] must be in bounds (arity was compared)
            continue
        if not r or r[0] != "enum" or r[1] != "Result":
            bad.append(pc_term(p.pc))
            continue
        fr = calls(p, "find_parameterized_rule")
        er = calls(p, "eval_rule")
        ins = calls(p, "insert")
        nins += len(ins)
        probs = []
        if len(fr) != 1:
            bad.append(pc_term(p.pc))
            continue
        prule = fr[0][3][3]["Ok"]
        names = field(ex, prule, PR.index("parameter_names"), "Vec")
        its = iterations(ex, p)
        # k-th parameter value is stored under the k-th parameter name
        for j, e in enumerate(ins):
            key = e[2][1] if len(e[2]) > 1 else None
            want = ex.proj.get((names[1], f"[{j}]")) if names[0] == "opaque" else None
            if j >= len(its) or want is None or not same(key, want):
                probs.append("argument stored under another parameter's name")
            # WHAT is bound: a literal argument is the ONE value it is - a one-entry list holding v - never spread into its elements or re-read;
            # a query / function-call argument is exactly what query() / resolve_function() answered for it
            val = e[2][2] if len(e[2]) > 2 else None
            arg = its[j][1] if j < len(its) else None
            answers = [c_[3][3]["Ok"] for c_ in calls(p, "query") + calls(p, "resolve_function") if c_[3][0] == "enum"]
            if val is not None and val[0] == "array":
                lit = payload(ex, arg, "Value") if arg is not None else None
                # (WHICH kind of entry - Literal or Resolved - is the separate obligation literal-argument-bound-as-a-literal)
                okv = (len(val[1]) == 1 and val[1][0][0] == "variant" and val[1][0][2] in ("Literal", "Resolved") and lit is not None
                       and same(val[1][0][3][0], lit))
            else:
                okv = val is not None and any(same(val, w) for w in answers)
            if not okv:
                probs.append("the value bound is not the argument's own value (literal: one entry holding v; query / call: its answer)")
        if er:
            e = er[0]
            ok = (len(er) == 1 and same(e[2][0], field(ex, prule, PR.index("rule"), "Rule")))
            # the status returned: the called rule's own status - unless the call carries a prefix `not`, which (C03) is never ignored and
            # means what it means for a rule name: PASS exactly when the call is not PASS
            ctag, cst = e[3][2], e[3][3]["Ok"][2]
            if r == e[3]:
                ret_term = f"(not {neg})"
            else:
                rst = r[3].get("Ok")
                rst = rst[2] if rst is not None and rst[0] == "enum" else None
                # (a failing record hook - start_record / end_record returning Err - is passed on as an error)
                rec_err = "(or false " + " ".join(f"(= {x[3][2]} 1)" for x in calls(p, "start_record") + calls(p, "end_record") if x[3][0] == "enum") + ")"
                if rst is not None:
                    ret_term = (f"(and {neg} (=> (= {ctag} 0) (or (and (= {r[2]} 0) (= {rst} (ite (= {cst} {a.P}) {a.F} {a.P}))) (and (= {r[2]} 1) {rec_err}))) "
                                f"(=> (= {ctag} 1) (= {r[2]} 1)))")
                else:
                    ret_term = f"(and {neg} (= {r[2]} 1) (or (= {ctag} 1) {rec_err}))"
            ctx = e[2][1] if len(e[2]) > 1 else None
            if ctx is not None and ctx[0] == "struct":
                mp = ctx[2].get("resolved_parameters")
                ok = ok and all(same(i_[2][0], mp) for i_ in ins) and same(ctx[2].get("parent"), ex.arg_env["_2"])
            else:
                ok = False
            if not ok:
                probs.append("the called rule is not evaluated in a context holding exactly the bound arguments")
            n_it = "(+ 0 0 " + " ".join(f"(ite (= {t} 1) 1 0)" for _k, _e, t, _i in its) + ")"
            params = field(ex, ex.arg_env["_1"], PC.index("parameters"), "Vec")
            good = f"(and (= {n_it} {len(ins)}) (= {ex.len_of(names)} {ex.len_of(params)}) {ret_term})"
        else:
            good = f"(= {r[2]} 1)"
        bad.append(f"(and {pc_term(p.pc)} (not {'false' if probs else good}))")
    c = a.discharge("eval_parameterized_rule_call/binding", ex, bad,
                f"call of a parameterised rule with <= 2 arguments ({nins} bindings over all paths): an arity mismatch or a failing "
                "argument query is an error and the rule is not evaluated; otherwise the k-th argument's value is bound to the k-th "
                "parameter name (a literal as the one value it is, never spread into its elements; a query / call as what it answered), the called rule's body is evaluated once in a context holding exactly these bindings on top of the "
                "caller's context; its status is returned unchanged - unless the call carries a prefix `not`: then the result is PASS exactly when "
                "the call is Ok and not PASS (the negation is never ignored)")
    if c:
        c["replay"] = replay_param_rules(a)
        c["reproduced"] = c["replay"].get("reproduced", False)
        a.candidates.append(c)


def param_literal_kind(a):
    """C15 (`calling f(args) is equivalent to its body with the parameters replaced by the argument literals`): a `let` literal resolves to
    [Literal(v)] (scope/resolve_variable) and a literal written in place is handed to the comparison as Literal(v) (eval.rs); the
    comparison operators read a Literal list as the SET of its members and a Resolved list as ONE value (operators.rs), so a literal
    argument must be bound as Literal(v) too. KNOWN FINDING KF4 on the pinned tree: it is bound as Resolved(v)."""
    ex = a.exec(r"(?:(?:rules::)?eval::)?eval_parameterized_rule_call",
                {"find_parameterized_rule": m_result_opq, "query": m_result_opq, "resolve_function": m_result_opq,
                 "eval_rule": mirexec.m_result_status, "next": mirexec.m_iter_next, "iter": mirexec.m_new_iter,
                 "into_iter": mirexec.m_new_iter, "as_str": mirexec.m_identity, RC_NEW: mirexec.m_identity,
                 "with_capacity": lambda ex, av: ex.opq(), "box_assume_init_into_vec_unsafe": mirexec.m_vec_from_array},
                log=("insert",), unroll=2, max_paths=40000)
    a.fns.append("rules::eval::eval_parameterized_rule_call (kind of entry a literal argument is bound as)")
    bad, n = [], 0
    for p in ex.paths:
        wrong = False
        for e in calls(p, "insert"):
            val = e[2][2] if len(e[2]) > 2 else None
            if val is not None and val[0] == "array":
                n += 1
                if not (len(val[1]) == 1 and val[1][0][0] == "variant" and val[1][0][2] == "Literal"):
                    wrong = True
        bad.append(pc_term(p.pc) if wrong else "false")
    c = a.discharge("eval_parameterized_rule_call/literal-argument-bound-as-a-literal", ex, bad,
                    f"call of a parameterised rule ({n} literal bindings over all paths): a literal argument is bound as [Literal(v)] - the kind of entry a "
                    "`let` literal resolves to and an in-place literal is compared as - so that `%p` in the body means what the literal means in place")
    if c:
        c["replay"] = replay_param_literal_kind(a)
        c["reproduced"] = c["replay"].get("reproduced", False)
        a.candidates.append(c)


def replay_param_literal_kind(a):
    """call form vs in-place form vs `let` form of clauses whose verdict depends on the literal being read as a literal"""
    exe = a.cli()
    if not exe:
        return {"reproduced": False, "note": "native build failed"}
    data = '{"a": 1, "R": ["tcp", "icmp"]}\n'
    wdef = "rule same(v, w) {\n  %v == %w\n}\nrule notin(v, allowed) {\n  %v not in %allowed\n}\n"
    triples = [("same(a, [1])", "a == [1]", "let w = [1]\n", "a == %w"),
               ("notin(R, [\"tcp\", \"udp\"])", "R not in [\"tcp\", \"udp\"]", "let al = [\"tcp\", \"udp\"]\n", "R not in %al")]
    out = []
    for call, inplace, letdef, letform in triples:
        got = []
        for pre, body in ((wdef, call), ("", inplace), (letdef, letform)):
            rc, rep, err = a.run_structured(exe, pre + "rule t {\n  " + body + "\n}\n", [data])
            if rep and isinstance(rep, list) and rep:
                r = rep[0]
                got.append("PASS" if "t" in r.get("compliant", []) else ("SKIP" if "t" in r.get("not_applicable", []) else "FAIL"))
            else:
                got.append(f"ERROR (exit {rc})")
        if got[0] != got[1]:
            out.append({"call": call, "in_place": inplace, "status_of_the_call": got[0], "status_in_place": got[1], "status_with_let": got[2]})
    return {"reproduced": bool(out), "mismatches": out, "data": data}


def replay_param_rules(a):
    import os, shutil, subprocess, tempfile
    exe = a.cli()
    if not exe:
        return {"reproduced": False, "note": "native build failed"}
    data = '{"a": 1,\n "b": 2, "L": [1, 2], "P": ["tcp"], "Q": "tcp", "R": ["tcp", "icmp"]}\n'
    defs = "rule chk(p, q) {\n  %p == 1\n  %q == 2\n}\n"
    cases = [(defs + "rule t {\n  chk(a, b)\n}\n", "PASS"), (defs + "rule t {\n  chk(b, a)\n}\n", "FAIL"),
             (defs + "rule t {\n  chk(1, 2)\n}\n", "PASS"), (defs + "rule t {\n  chk(a, 3)\n}\n", "FAIL"),
             (defs + "let p = b\nrule t {\n  chk(a, b)\n}\n", "PASS"),
             # prefix `not` on a call: PASS exactly when the call is not PASS
             (defs + "rule t {\n  not chk(a, b)\n}\n", "FAIL"), (defs + "rule t {\n  not chk(b, a)\n}\n", "PASS"), (defs + "rule t {\n  !chk(a, b)\n}\n", "FAIL"),
             (defs + "rule t {\n  NOT chk(a, 3)\n}\n", "PASS"), (defs + "rule t when not chk(b, a) {\n  a == 1\n}\n", "PASS"),
             (defs + "rule t when not chk(a, b) {\n  a == 1\n}\n", "SKIP"),
             ("rule sk(p) {\n  when %p == 9 {\n    %p == 1\n  }\n}\nrule t {\n  not sk(a)\n}\n", "PASS"),
             ("rule sk(p) {\n  when %p == 9 {\n    %p == 1\n  }\n}\nrule t {\n  sk(a)\n  a == 1\n}\n", "PASS"),
             (defs + "rule t {\n  chk(a)\n}\n", "ERROR"), (defs + "rule t {\n  chk(a, b, a)\n}\n", "ERROR"),
             # an argument that selects nothing stays an empty selection inside the rule, also when an outer variable has the name
             ("rule isempty(p) {\n  %p empty\n}\nlet p = a\nrule t {\n  isempty(L[ this == 99 ])\n}\n", "PASS"),
             ("rule isempty(p) {\n  %p empty\n}\nrule t {\n  isempty(L[ this == 99 ])\n}\n", "PASS"),
             ("rule nonempty(p) {\n  %p !empty\n}\nlet p = a\nrule t {\n  nonempty(L[ this == 99 ])\n}\n", "FAIL")]
    out = []
    for rules, exp in cases:
        rc, rep, err = a.run_structured(exe, rules, [data])
        if exp == "ERROR":
            if rc in (0, 19):
                out.append({"rules_file": rules, "expected": "an error exit", "observed_exit": rc})
            continue
        if not (rep and isinstance(rep, list) and rep):
            out.append({"rules_file": rules, "problem": "no report", "exit": rc, "stderr": (err or "")[-200:]})
            continue
        r = rep[0]
        got = "PASS" if "t" in r.get("compliant", []) else ("SKIP" if "t" in r.get("not_applicable", []) else "FAIL")
        if got != exp:
            out.append({"rules_file": rules, "expected": exp, "observed": got})
    # a literal argument means the body with the literal written in place of the parameter - also when the literal is a list or a map
    # (call form vs in-place form; the two must report the same status)
    wdef = "rule within(v, allowed) {\n  %v in %allowed\n}\nrule same(v, w) {\n  %v == %w\n}\nrule notin(v, allowed) {\n  %v not in %allowed\n}\n"
    pairs = [("within(P, [\"tcp\", \"udp\"])", "P in [\"tcp\", \"udp\"]"), ("within(Q, [\"tcp\", \"udp\"])", "Q in [\"tcp\", \"udp\"]"),
             ("within(R, [\"tcp\", \"udp\"])", "R in [\"tcp\", \"udp\"]"), ("within(P, [\"udp\"])", "P in [\"udp\"]"),
             ("same(L, [1, 2])", "L == [1, 2]"), ("same(P, [\"tcp\"])", "P == [\"tcp\"]"), ("same(Q, {\"k\": 1})", "Q == {\"k\": 1}")]
    # (pairs that tell a Literal entry from a Resolved one - `a == [1]`, `R not in [..]` - are the replay of literal-argument-bound-as-a-literal)
    for call, inplace in pairs:
        got = []
        for body in (call, inplace):
            rc, rep, err = a.run_structured(exe, wdef + "rule t {\n  " + body + "\n}\n", [data])
            if rep and isinstance(rep, list) and rep:
                r = rep[0]
                got.append("PASS" if "t" in r.get("compliant", []) else ("SKIP" if "t" in r.get("not_applicable", []) else "FAIL"))
            else:
                got.append(f"ERROR (exit {rc})")
        if got[0] != got[1]:
            out.append({"call": call, "in_place": inplace, "status_of_the_call": got[0], "status_in_place": got[1]})
    real = [o for o in out if "problem" not in o]
    return {"reproduced": bool(real), "mismatches": out[:4], "data": data}


def rule_status_semantics(a):
    """RootScope::rule_status: cached answer, else the first definition whose status is not SKIP decides"""
    RS = struct_fields(a.src, "rules/eval_context.rs", "RootScope")
    ex = a.exec(SCOPE_IMPL + "rule_status", {"get": mirexec.m_option, "eval_rule": mirexec.m_result_status, "next": mirexec.m_iter_next,
                                             "into_iter": mirexec.m_new_iter, "iter": mirexec.m_new_iter,
                                             "ne": lambda ex, av: ("bool", f"(not (= {av[0][2]} {av[1][2]}))") if len(av) == 2 and av[0][0] == "enum" and av[1][0] == "enum" else ex.havoc("bool")},
                log=("insert",), unroll=2, max_paths=20000, first_arg_re=r"_1: &mut (?:eval_context::)?RootScope")
    a.fns.append("rules::eval_context::RootScope::rule_status (semantics)")
    me, name = ex.arg_env["_1"], ex.arg_env["_2"]
    cache = field(ex, me, RS.index("rules_status"), "HashMap")
    rules = field(ex, me, RS.index("rules"), "HashMap")
    S = a.S
    bad, ndef = [], 0
    for p in ex.paths:
        r = p.ret
        if p.outcome != "return" or not r or r[0] != "enum" or r[1] != "Result":
            bad.append(pc_term(p.pc))
            continue
        gets = calls(p, "get")
        evs = calls(p, "eval_rule")
        ins = calls(p, "insert")
        cg = [g for g in gets if same(g[2][0], cache)]
        rg = [g for g in gets if same(g[2][0], rules)]
        if len(cg) != 1 or not same(cg[0][2][1], name):
            bad.append(pc_term(p.pc))
            continue
        hit = f"(= {cg[0][3][2]} 1)"
        okst = r[3].get("Ok")
        parts = []
        if not evs and not rg:
            # answered from the cache
            cv = cg[0][3][3].get("Some")
            parts.append(hit)
            parts.append(f"(= {r[2]} 0)")
        else:
            parts.append(f"(not {hit})")
            if len(rg) != 1 or not same(rg[0][2][1], name):
                parts.append("false")
            else:
                found = f"(= {rg[0][3][2]} 1)"
                parts.append(f"(=> (not {found}) (= {r[2]} 1))")
                # definitions are evaluated in order until one is not SKIP; all SKIP -> SKIP; an error stops
                sts = [(e[3][2], e[3][3]["Ok"][2]) for e in evs]
                ndef += len(sts)
                for j, (t, st) in enumerate(sts[:-1]):
                    parts.append(f"(and (= {t} 0) (= {st} {S}))")          # a later definition is only reached past SKIPs
                if sts and okst is not None and okst[0] == "enum":
                    t, st = sts[-1]
                    parts.append(f"(=> (= {r[2]} 0) (and (= {t} 0) (= {okst[2]} {st})))")
                    parts.append(f"(=> (= {t} 1) (= {r[2]} 1))")
                    # SKIP is only the answer when EVERY definition was evaluated (the walk ended because there was no further definition,
                    # not because of anything else about the definition just evaluated)
                    exhausted = "(or false " + " ".join(f"(= {tg} 0)" for _k, _e, tg, _i in iterations(ex, p)) + ")"
                    parts.append(f"(=> (and (= {r[2]} 0) (= {t} 0) (= {st} {S})) {exhausted})")
                elif not sts and okst is not None and okst[0] == "enum":
                    parts.append(f"(=> (and {found} (= {r[2]} 0)) (= {okst[2]} {S}))")
                # what is cached is what is returned, under this name
                if ins:
                    okc = len(ins) == 1 and same(ins[0][2][0], cache) and same(ins[0][2][1], name)
                    parts.append("true" if okc else "false")
                else:
                    parts.append(f"(= {r[2]} 1)")
        bad.append(f"(and {pc_term(p.pc)} (not (and {' '.join(parts)})))")
    c = a.discharge("RootScope::rule_status/first-non-skip", ex, bad,
                    f"status of a rule referenced by name, <= 2 definitions of that name ({ndef} evaluations over all paths): a cached "
                    "status is returned without evaluating anything; otherwise the definitions are evaluated in order, the first one whose "
                    "status is not SKIP decides (SKIP only after ALL definitions were evaluated and are SKIP), an unknown name or an evaluation error is an error, and the status "
                    "returned is cached under that name")
    if c:
        c["replay"] = replay_named_rules(a)
        c["reproduced"] = c["replay"].get("reproduced", False)
        a.candidates.append(c)


def replay_named_rules(a):
    exe = a.cli()
    if not exe:
        return {"reproduced": False, "note": "native build failed"}
    data = '{"a": 1,\n "b": 2}\n'
    # `t` refers to `d`, defined twice: [SKIP, PASS] / [SKIP, FAIL] / [PASS, FAIL] / [FAIL, PASS] / [SKIP, SKIP]; before and after its user
    # USKIP: an UNGUARDED definition that evaluates to SKIP (a body `when` that does not hold)
    defs = {"SKIP": "rule d when a == 9 { a == 1 }", "PASS": "rule d { a == 1 }", "FAIL": "rule d { a == 2 }",
            "USKIP": "rule d {\n  when a == 9 {\n    a == 1\n  }\n}"}
    out = []
    for first, second, exp in (("SKIP", "PASS", "PASS"), ("SKIP", "FAIL", "FAIL"), ("PASS", "FAIL", "PASS"), ("FAIL", "PASS", "FAIL"), ("SKIP", "SKIP", "FAIL"),
                               ("USKIP", "PASS", "PASS"), ("PASS", "USKIP", "PASS"), ("USKIP", "FAIL", "FAIL"), ("USKIP", "SKIP", "FAIL")):
        for order in ("before", "after"):
            user = "rule t {\n  d\n}\nrule u {\n  d\n}\n"
            dd = defs[first] + "\n" + defs[second] + "\n"
            rules = (dd + user) if order == "before" else (user + dd)
            rc, rep, err = a.run_structured(exe, rules, [data])
            if not (rep and isinstance(rep, list) and rep):
                out.append({"rules_file": rules, "problem": "no report", "exit": rc})
                continue
            r_ = rep[0]
            for nm in ("t", "u"):
                got = "PASS" if nm in r_.get("compliant", []) else ("SKIP" if nm in r_.get("not_applicable", []) else "FAIL")
                if got != exp:
                    out.append({"rules_file": rules, "rule": nm, "expected": exp, "observed": got})
    real = [o for o in out if "problem" not in o]
    return {"reproduced": bool(real), "mismatches": out[:4], "data": data}


def report_rule_listing(a):
    """report_all_failed_clauses_for_rules over one record: a FAIL rule record is always listed (one ClauseReport::Rule with
    that rule's name), whatever its children yield; a PASS / SKIP rule record contributes nothing"""
    RT = enum_variants(a.src, "rules/mod.rs", "RecordType")
    ER = struct_fields(a.src, "rules/eval_context.rs", "EventRecord")
    NS = struct_fields(a.src, "rules/mod.rs", "NamedStatus")
    ex = a.exec(r"(?:(?:rules::)?eval_context::)?report_all_failed_clauses_for_rules",
                {"next": mirexec.m_iter_next, "into_iter": mirexec.m_new_iter, "iter": mirexec.m_new_iter,
                 "report_all_failed_clauses_for_rules": lambda ex, av: ex.opq(), "default": lambda ex, av: ex.opq()},
                log=("push", "extend"), unroll=1, max_paths=60000)
    a.fns.append("rules::eval_context::report_all_failed_clauses_for_rules (rule records)")
    bad, nrule = [], 0
    for p in ex.paths:
        its = iterations(ex, p, it_filter=lambda ev: ex.iter_src.get(ev[2][0][1], ev[2][0]) == ex.arg_env["_1"])
        if p.outcome != "return":
            # unreachable!() arms for literal values etc. are not about rule records: only demand that a rule record never panics
            for k, el, tag, _i in its[-1:]:          # the record being processed when the path ends
                cont = field(ex, el, ER.index("container"), "Option")
                some = payload(ex, cont, "Some")
                isrule = f"(and (= {tag} 1) (= {disc(ex, cont)} 1) (= {disc(ex, some)} {RT.index('RuleCheck')}))"
                bad.append(f"(and {pc_term(p.pc)} {isrule})")
            continue
        it_idx = {i: k for k, _el, _t, i in its}
        cur, per = None, {}
        for i, e in enumerate(p.events):
            if i in it_idx:
                cur = it_idx[i]
            if e[0] == "call" and e[1] in ("push", "extend") and e[2] and e[2][0] == p.ret:
                per.setdefault(cur, []).append(e)
        parts = []
        for k, el, tag, _i in its:
            cont = field(ex, el, ER.index("container"), "Option")
            some = payload(ex, cont, "Some")
            ns = payload(ex, some, "RuleCheck")
            isrule = f"(and (= {tag} 1) (= {disc(ex, cont)} 1) (= {disc(ex, some)} {RT.index('RuleCheck')}))"
            st = field(ex, ns, NS.index("status"), "rules::Status")
            nm = field(ex, ns, NS.index("name"), "&str")
            evs = per.get(k, [])
            listed = (len(evs) == 1 and evs[0][1] == "push" and len(evs[0][2]) == 2 and evs[0][2][1][0] == "variant"
                      and evs[0][2][1][2] == "Rule" and evs[0][2][1][3] and evs[0][2][1][3][0][0] == "struct"
                      and same(evs[0][2][1][3][0][2].get("name"), nm))
            nrule += 1
            parts.append(f"(=> (and {isrule} (= {st[2]} {a.F})) {'true' if listed else 'false'})")
            parts.append(f"(=> (and {isrule} (not (= {st[2]} {a.F}))) {'true' if not evs else 'false'})")
        good = "(and true " + " ".join(parts) + ")"
        bad.append(f"(and {pc_term(p.pc)} (not {good}))")
    # ---- nothing is listed for a record that did not FAIL ------------------------------------------------------
    BC = struct_fields(a.src, "rules/mod.rs", "BlockCheck")
    TBC = struct_fields(a.src, "rules/mod.rs", "TypeBlockCheck")
    CC = enum_variants(a.src, "rules/mod.rs", "ClauseCheck")
    VC = struct_fields(a.src, "rules/mod.rs", "ValueCheck")
    UVC = struct_fields(a.src, "rules/mod.rs", "UnaryValueCheck")
    CCC = struct_fields(a.src, "rules/mod.rs", "ComparisonClauseCheck")
    ICC = struct_fields(a.src, "rules/mod.rs", "InComparisonCheck")

    def status_of(some):
        """[(condition 'this record is of kind K', status discriminant term)] for every status-carrying kind of record"""
        out = []
        for v in ("FileCheck", "RuleCheck"):
            if v in RT:
                out.append((f"(= {disc(ex, some)} {RT.index(v)})", field(ex, payload(ex, some, v), NS.index("status"), "rules::Status")[2]))
        for v in ("BlockGuardCheck", "Disjunction", "GuardClauseBlockCheck", "WhenCheck"):
            if v in RT:
                out.append((f"(= {disc(ex, some)} {RT.index(v)})", field(ex, payload(ex, some, v), BC.index("status"), "rules::Status")[2]))
        for v in ("TypeBlock", "RuleCondition", "TypeCondition", "Filter", "WhenCondition"):
            if v in RT:
                out.append((f"(= {disc(ex, some)} {RT.index(v)})", disc(ex, payload(ex, some, v))))
        if "TypeCheck" in RT:
            blk = field(ex, payload(ex, some, "TypeCheck"), TBC.index("block"), "BlockCheck")
            out.append((f"(= {disc(ex, some)} {RT.index('TypeCheck')})", field(ex, blk, BC.index("status"), "rules::Status")[2]))
        if "ClauseValueCheck" in RT:
            cl = payload(ex, some, "ClauseValueCheck")
            isc = f"(= {disc(ex, some)} {RT.index('ClauseValueCheck')})"
            out.append((f"(and {isc} (= {disc(ex, cl)} {CC.index('Success')}))", None))
            un = field(ex, payload(ex, cl, "Unary"), UVC.index("value"), "ValueCheck")
            out.append((f"(and {isc} (= {disc(ex, cl)} {CC.index('Unary')}))", field(ex, un, VC.index("status"), "rules::Status")[2]))
            out.append((f"(and {isc} (= {disc(ex, cl)} {CC.index('Comparison')}))",
                        field(ex, payload(ex, cl, "Comparison"), CCC.index("status"), "rules::Status")[2]))
            out.append((f"(and {isc} (= {disc(ex, cl)} {CC.index('InComparison')}))",
                        field(ex, payload(ex, cl, "InComparison"), ICC.index("status"), "rules::Status")[2]))
        return out
    bad3, nrec = [], 0
    for p in ex.paths:
        if p.outcome != "return":
            continue
        its = iterations(ex, p, it_filter=lambda ev: ex.iter_src.get(ev[2][0][1], ev[2][0]) == ex.arg_env["_1"])
        it_idx = {i: k for k, _el, _t, i in its}
        cur, per = None, {}
        for i, e in enumerate(p.events):
            if i in it_idx:
                cur = it_idx[i]
            if e[0] == "call" and e[1] in ("push", "extend") and e[2] and e[2][0] == p.ret:
                per.setdefault(cur, []).append(e)
        parts = []
        for k, el, tag, _i in its:
            if not per.get(k):
                continue
            nrec += 1
            cont = field(ex, el, ER.index("container"), "Option")
            some = payload(ex, cont, "Some")
            # something was listed for this record: it must not be a record that carries a status other than FAIL
            for cond, st in status_of(some):
                notfail = "true" if st is None else f"(not (= {st} {a.F}))"
                parts.append(f"(not (and (= {disc(ex, cont)} 1) {cond} {notfail}))")
        if parts:
            bad3.append(f"(and {pc_term(p.pc)} (not (and true {' '.join(parts)})))")
    c3 = a.discharge("report_all_failed_clauses_for_rules/only-fail-listed", ex, bad3,
                     f"report builder over one record ({nrec} listing record visits): whenever anything is listed for a record (a clause "
                     "report pushed, or the reports of its children appended), that record is not one whose own status is PASS or SKIP - "
                     "for every status-carrying record kind (file, rule, conditions, type / when / block / disjunction / clause-block "
                     "checks, unary / comparison / in-comparison clause checks) and not a `Success` clause", witness=False)
    if c3:
        c3["replay"] = replay_only_fail_listed(a)
        c3["reproduced"] = c3["replay"].get("reproduced", False)
        a.candidates.append(c3)
    c = a.discharge("report_all_failed_clauses_for_rules/rule-listing", ex, bad,
                    "report builder over one record (children's reports modelled as an arbitrary list, possibly empty): a RuleCheck "
                    "record with status FAIL always yields exactly one Rule entry carrying that rule's name - also when no individual "
                    "check can be shown for it; a RuleCheck record with status PASS or SKIP yields nothing; a rule record never panics")
    if c:
        c["replay"] = replay_fail_rule_listed(a)
        c["reproduced"] = c["replay"].get("reproduced", False)
        a.candidates.append(c)


def replay_only_fail_listed(a):
    """a FAIL rule that also contains clauses / blocks that are PASS or SKIP (among them an empty cached variable used as a
    block, a skipped when block, a passing disjunction): exactly the failing clause is listed under the rule"""
    exe = a.cli()
    if not exe:
        return {"reproduced": False, "note": "native build failed"}
    data = '{"Resources": {"q": {"Type": "AWS::SQS::Queue", "Properties": {"x": 1}}},\n "a": 1, "L": [ {"x": 1} ]}\n'
    extras = {
        "empty-variable-block": ("let none = Resources.*[ Type == 'AWS::S3::Bucket' ]\nrule pre when %none !empty {\n  a == 1\n}\n", "  %none {\n    Properties exists\n  }\n"),
        "skipped-when": ("", "  when a == 2 {\n    a == 3\n  }\n"),
        "passing-or": ("", "  a == 1 or a == 5\n"),
        "passing-block": ("", "  Resources.* {\n    Properties.x == 1\n  }\n"),
        "skipped-filter-block": ("", "  L[ x == 9 ] {\n    y exists\n  }\n"),
        "passing-type-block": ("", "  AWS::SQS::Queue {\n    Properties.x == 1\n  }\n"),
    }
    out, tried = [], []
    for label, (pre, extra) in extras.items():
        for first in (True, False):
            fail = "  a == 2 <<the one failing check>>\n"
            rules = pre + "rule r {\n" + (fail + extra if first else extra + fail) + "}\n"
            rc, rep, err = a.run_structured(exe, rules, [data])
            if not (rep and isinstance(rep, list) and rep):
                out.append({"case": label, "problem": "no report", "exit": rc, "stderr": err})
                continue
            ncs = [x for x in rep[0].get("not_compliant", []) if "Rule" in x and x["Rule"].get("name") == "r"]
            checks = ncs[0]["Rule"].get("checks", []) if ncs else None
            ok = rc == 19 and checks is not None and len(checks) == 1 and "the one failing check" in json.dumps(checks[0])
            tried.append({"case": label, "failing_first": first, "ok": ok})
            if not ok:
                out.append({"case": label, "rules_file": rules, "exit": rc, "listed_checks": checks})
    real = [o for o in out if "problem" not in o]
    return {"reproduced": bool(real), "mismatches": out[:3], "data": data, "tried": tried}


def replay_duplicate_names(a):
    """a rule name defined twice with different statuses: in how many of the three lists does the name appear?"""
    exe = a.cli()
    if not exe:
        return {"reproduced": False, "note": "native build failed"}
    defs = {"PASS": "{\n  a == 1\n}", "FAIL": "{\n  a == 3\n}", "SKIP": "when a == 2 {\n  a == 1\n}"}
    out, tried = [], []
    for s0, s1 in (("SKIP", "PASS"), ("PASS", "SKIP"), ("SKIP", "FAIL"), ("FAIL", "SKIP"), ("PASS", "FAIL"), ("FAIL", "PASS")):
        rules = f"rule r {defs[s0]}\nrule r {defs[s1]}\n"
        rc, rep, err = a.run_structured(exe, rules, ['{"a":\n 1}\n'])
        if not (rep and isinstance(rep, list) and rep):
            tried.append({"definitions": [s0, s1], "problem": "no report", "exit": rc})
            continue
        r = rep[0]
        where = [b for b, names in (("compliant", r.get("compliant", [])), ("not_applicable", r.get("not_applicable", [])),
                                    ("not_compliant", [x["Rule"]["name"] for x in r.get("not_compliant", []) if "Rule" in x])) if "r" in names]
        tried.append({"definitions": [s0, s1], "listed_in": where})
        if len(where) != 1:
            out.append({"rules_file": rules, "definitions": [s0, s1], "listed_in": where})
    return {"reproduced": bool(out), "mismatches": out[:3], "tried": tried, "data": '{"a": 1}'}


def replay_fail_rule_listed(a):
    exe = a.cli()
    if not exe:
        return {"reproduced": False, "note": "native build failed"}
    data = '{"Resources": {"q": {"Type": "AWS::SQS::Queue", "Properties": {"x": 1}}},\n "a": 1}\n'
    rules_list = [
        "rule no_checks {\n  Resources.*[ Type == 'AWS::S3::Bucket' ] !empty { Properties exists }\n}\nrule ok { a == 1 }\nrule skipped when a == 2 { a == 1 }\n",
        "rule plain { a == 2 }\nrule ok { a == 1 }\n",
        "rule nested {\n  a == 1\n  Resources.* { Properties.x == 2 or Properties.y exists }\n}\n",
    ]
    expect = [{"no_checks": "FAIL", "ok": "PASS", "skipped": "SKIP"}, {"plain": "FAIL", "ok": "PASS"}, {"nested": "FAIL"}]
    out = []
    for rules, exp in zip(rules_list, expect):
        rc, rep, err = a.run_structured(exe, rules, [data])
        if not (rep and isinstance(rep, list) and rep):
            out.append({"rules_file": rules, "problem": "no report", "exit": rc})
            continue
        r = rep[0]
        buckets = {"PASS": set(r.get("compliant", [])), "SKIP": set(r.get("not_applicable", [])),
                   "FAIL": {x["Rule"]["name"] for x in r.get("not_compliant", []) if "Rule" in x}}
        for name, st in exp.items():
            where = [b for b, names in buckets.items() if name in names]
            if where != [st]:
                out.append({"rules_file": rules, "rule": name, "expected_in": st, "found_in": where, "report_status": r.get("status")})
    real = [o for o in out if "problem" not in o]
    return {"reproduced": bool(real), "mismatches": out[:4], "data": data}

# --------------------------------------------------------------------------------------------------
# C07: the verdict does not depend on output format / verbosity / summary flags / entry point (wiring)
# --------------------------------------------------------------------------------------------------
def flags_verdict_wiring(a):
    """evaluate_against_data_input with verbose, print_json, the summary selection and the output format ALL symbolic"""
    df = struct_fields(a.src, "commands/validate.rs", "DataFile")
    ex = a.exec(r"(?:commands::validate::)?evaluate_against_data_input",
                {"root_scope": m_scope, "eval_rules_file": mirexec.m_result_status, "is_empty": lambda ex, av: ex.havoc("bool"),
                 "report_eval": mirexec.m_result_unit, "next": mirexec.m_iter_next, "into_iter": mirexec.m_new_iter,
                 "iter": mirexec.m_new_iter, RC_NEW: mirexec.m_identity, "from": lambda ex, av: ex.opq(),
                 "reset_recorder": lambda ex, av: ex.opq(), "extract": lambda ex, av: ex.opq(),
                 "print_verbose_tree": lambda ex, av: ("unit",), "to_string_pretty": m_result_opq,
                 "write_fmt": mirexec.m_result_unit, "expect": lambda ex, av: ("unit",)},
                init_env={"_3": ("enum", "Option", "0", {})}, log=("print_verbose_tree", "to_string_pretty"), unroll=2, max_paths=80000)
    a.fns.append("commands::validate::evaluate_against_data_input (all flag values)")
    files, fmt = ex.arg_env["_4"], ex.arg_env["_2"]
    P, F = a.P, a.F
    bad, n = [], 0
    for p in ex.paths:
        rtag, rst = ret_ok_status(p)
        if p.outcome != "return" or rtag is None:
            bad.append(pc_term(p.pc))
            continue
        evals, reps = calls(p, "eval_rules_file"), calls(p, "report_eval")
        rr, xs = calls(p, "reset_recorder"), calls(p, "extract")
        probs = []
        if len(reps) > len(evals) or len(reps) < len(evals) - 1:
            probs.append("reports and evaluations do not pair up")
        for i, rp in enumerate(reps):
            ev = evals[i]
            n += 1
            args = rp[2][1:] if len(rp[2]) >= 9 else rp[2]          # receiver first
            st_arg, rec_arg = args[1], args[2]
            if not (st_arg[0] == "enum" and ev[3][0] == "enum" and st_arg[2] == ev[3][3]["Ok"][2]):
                probs.append("report_eval does not receive this evaluation's status")
            ok_rec = (i < len(rr) and i < len(xs) and same(rr[i][2][0], ev[2][1]) and same(xs[i][2][0], rr[i][3]) and same(rec_arg, xs[i][3]))
            if not ok_rec:
                probs.append("report_eval does not receive the record tree of this evaluation's scope")
            if not any(same(x, fmt) for x in args):
                probs.append("the output format handed to the reporter is not the requested one")
        for e in calls(p, "print_verbose_tree") + calls(p, "to_string_pretty"):
            if not any(same(e[2][0], x[3]) for x in xs):
                probs.append("verbose / print-json renders something other than an evaluation's record tree")
        sts = [e[3][3]["Ok"][2] for e in evals if e[3][0] == "enum"]
        anyfail = "(or false " + " ".join(f"(= {t} {F})" for t in sts) + ")"
        anyerr = "(or false " + " ".join(f"(= {e[3][2]} 1)" for e in evals + reps + calls(p, "to_string_pretty") if e[3][0] == "enum") + ")"
        good = f"(ite (= {rtag} 0) (and (not {anyerr}) (= {rst} (ite {anyfail} {F} {P}))) {anyerr})" if rst is not None else f"(and (= {rtag} 1) {anyerr})"
        bad.append(f"(and {pc_term(p.pc)} (not {'false' if probs else good}))")
    c = a.discharge("evaluate_against_data_input/flags-do-not-touch-the-verdict", ex, bad,
                    f"plain validate, <= 2 documents, verbose / print_json / summary selection / output format symbolic ({n} reports over all "
                    "paths): whatever the flags, every document is evaluated once and its reporter receives exactly that evaluation's status, "
                    "the record tree of that evaluation's scope and the requested format; --verbose and --print-json render that same tree; "
                    "the returned status is FAIL iff some evaluation was FAIL, else PASS; an error only from a callee")
    if c:
        c["replay"] = replay_formats_agree(a)
        c["reproduced"] = c["replay"].get("reproduced", False)
        a.candidates.append(c)


def replay_formats_agree(a):
    """the same rules and data through every rendering / flag combination: exit code, per-rule PASS / FAIL / SKIP sets and
    file status must coincide (the structured JSON report is the reference)"""
    import os, shutil, subprocess, tempfile
    exe = a.cli()
    if not exe:
        return {"reproduced": False, "note": "native build failed"}
    rules = ("rule p1 {\n  a == 1\n}\nrule f1 {\n  a == 2 <<m1>>\n}\nrule s1 when a == 2 {\n  a == 1\n}\n"
             "rule f2 {\n  b exists\n  a == 1\n}\nrule p2 when p1 {\n  a >= 1\n}\n")
    variants = {"all-pass": "rule p1 {\n  a == 1\n}\nrule p2 {\n  a >= 1\n}\nrule s1 when a == 2 {\n  a == 1\n}\n",
                "all-skip": "rule s1 when a == 2 {\n  a == 1\n}\nrule s2 when a == 3 {\n  a == 1\n}\n", "mixed": rules}
    data = '{"a":\n 1}\n'
    d = tempfile.mkdtemp(prefix="cfnverif_replay_")
    env = dict(os.environ)
    env["RUST_BACKTRACE"] = "0"
    out, tried = [], []
    try:
        open(os.path.join(d, "d.json"), "w").write(data)
        for label, rtext in variants.items():
            open(os.path.join(d, "r.guard"), "w").write(rtext)

            def run(args, stdin=None):
                pr = subprocess.run([exe] + args, cwd=d, capture_output=True, text=True, env=env, timeout=120, input=stdin)
                return pr.returncode, pr.stdout
            rc0, o0 = run(["validate", "-r", "r.guard", "-d", "d.json", "--structured", "-o", "json", "--show-summary", "none"])
            try:
                ref = json.loads(o0)[0]
            except Exception:
                tried.append({"rules": label, "problem": "reference run gave no report", "exit": rc0})
                continue
            sets = {"PASS": set(ref.get("compliant", [])), "SKIP": set(ref.get("not_applicable", [])),
                    "FAIL": {x["Rule"]["name"] for x in ref.get("not_compliant", []) if "Rule" in x}}

            def note(what, ok, **kw):
                tried.append({"rules": label, "run": what, "ok": ok})
                if not ok:
                    out.append(dict({"rules_file": rtext, "run": what, "reference": {k: sorted(v) for k, v in sets.items()}, "reference_exit": rc0}, **kw))
            # plain JSON / YAML, with every flag combination
            for extra in ([], ["--verbose"], ["--print-json"], ["--verbose", "--print-json"]):
                for summ in ("none", "all", "pass,fail,skip", "fail"):
                    rc, o = run(["validate", "-r", "r.guard", "-d", "d.json", "-o", "json", "--show-summary", summ] + extra)
                    try:
                        i = o.index("{\n  \"name\"")
                        rep = json.JSONDecoder().raw_decode(o[i:])[0]
                        got = {"PASS": set(rep.get("compliant", [])), "SKIP": set(rep.get("not_applicable", [])),
                               "FAIL": {x["Rule"]["name"] for x in rep.get("not_compliant", []) if "Rule" in x}}
                        ok = rc == rc0 and got == sets and rep.get("status") == ref.get("status")
                    except Exception as e:
                        ok, got = False, f"no JSON report in output ({e})"
                    note(f"validate -o json --show-summary {summ} {' '.join(extra)}", ok, exit=rc, got=str(got)[:300])
            # console summary table
            rc, o = run(["validate", "-r", "r.guard", "-d", "d.json", "--show-summary", "all"])
            got = {"PASS": set(), "FAIL": set(), "SKIP": set()}          # by the status printed next to the rule
            under = {"PASS": set(), "FAIL": set(), "SKIP": set()}        # by the header the line is printed under
            hdr = None
            for line in o.splitlines():
                h = re.match(r"^(PASS|FAILED|SKIP) rules\s*$", line)
                if h:
                    hdr = {"PASS": "PASS", "FAILED": "FAIL", "SKIP": "SKIP"}[h.group(1)]
                m = re.match(r"^r\.guard/(\w+)\s+(PASS|FAIL|SKIP)\s*$", line)
                if m:
                    got[m.group(2)].add(m.group(1))
                    if hdr:
                        under[hdr].add(m.group(1))
            status_line = re.search(r"Status = (PASS|FAIL|SKIP)", o)
            note("validate --show-summary all (console table)", rc == rc0 and got == sets and under == sets and
                 (status_line is None or status_line.group(1) == ref.get("status")), exit=rc, got={k: sorted(v) for k, v in got.items()},
                 under_header={k: sorted(v) for k, v in under.items()})
            # data on stdin and as payload
            rc, o = run(["validate", "-r", "r.guard", "--structured", "-o", "json", "--show-summary", "none"], stdin=data)
            try:
                rep = json.loads(o)[0]
                ok = rc == rc0 and set(rep.get("compliant", [])) == sets["PASS"] and set(rep.get("not_applicable", [])) == sets["SKIP"] and rep.get("status") == ref.get("status")
            except Exception:
                ok = False
            note("validate --structured, data on stdin", ok, exit=rc)
            payload = json.dumps({"rules": [rtext], "data": [data]})
            rc, o = run(["validate", "--payload", "--structured", "-o", "json", "--show-summary", "none"], stdin=payload)
            try:
                rep = json.loads(o)[0]
                ok = rc == rc0 and set(rep.get("compliant", [])) == sets["PASS"] and set(rep.get("not_applicable", [])) == sets["SKIP"] and rep.get("status") == ref.get("status")
            except Exception:
                ok = False
            note("validate --payload --structured", ok, exit=rc)
            # JUnit and SARIF of the structured reporter: exit code and failing rule names
            rc, o = run(["validate", "-r", "r.guard", "-d", "d.json", "--structured", "-o", "junit", "--show-summary", "none"])
            # one <testcase> per rules file: failure iff the file status is FAIL, status="skip" iff SKIP, plain otherwise
            mark = "FAIL" if "<failure" in o else ("SKIP" if 'status="skip"' in o else "PASS")
            note("validate --structured -o junit", rc == rc0 and mark == ref.get("status") and o.count("<testcase") == 1, exit=rc, mark=mark)
            rc, o = run(["validate", "-r", "r.guard", "-d", "d.json", "--structured", "-o", "sarif", "--show-summary", "none"])
            try:
                sar = json.loads(o)
                results = sar["runs"][0]["results"]
                nchecks = sum(len(x["Rule"].get("checks", [])) for x in ref.get("not_compliant", []) if "Rule" in x)
                ok = rc == rc0 and len(results) == nchecks
            except Exception as e:
                ok, results = False, str(e)
            note("validate --structured -o sarif (one result per failing check)", ok, exit=rc)
        real = [o_ for o_ in out]
        return {"reproduced": bool(real), "mismatches": real[:3], "tried": tried,
                "note": "; ".join(t["problem"] for t in tried if "problem" in t) or None}
    finally:
        shutil.rmtree(d, ignore_errors=True)


REPORT_MODELS = None


def _report_models():
    return {"simplified_json_from_root": m_result_opq, "to_writer": mirexec.m_result_unit, "to_writer_pretty": mirexec.m_result_unit,
            "single_line": m_result_opq, "report_eval": mirexec.m_result_unit, "report_from_events": mirexec.m_result_unit,
            "root": mirexec.m_option, "at": m_result_opq, "map_or": m_result_opq,
            "is_ok": lambda ex, av: ("bool", f"(= {av[0][2]} 0)") if av and av[0][0] == "enum" else ex.havoc("bool"),
            "next": mirexec.m_iter_next, "into_iter": mirexec.m_new_iter, "iter": mirexec.m_new_iter}


def reporter_chain(a):
    """the console reporter chain (SummaryTable -> CfnAware -> TfAware -> GenericSummary): every link hands the verdict on
    unchanged and renders from the same record tree with the same report builder as the structured reporter"""
    ARGN = {"write": "_2", "writer": "_2", "status": "_3", "root_record": "_4", "rules_file": "_5", "data_file": "_6",
            "data_file_bytes": "_7", "data": "_8", "output_type": "_9"}
    links = [("cfn", r"cfn::<impl at guard/src/commands/reporters/validate/cfn\.rs:\d+:\d+: \d+:\d+>::report_eval"),
             ("tf", r"tf::<impl at guard/src/commands/reporters/validate/tf\.rs:\d+:\d+: \d+:\d+>::report_eval"),
             ("generic_summary", r"generic_summary::<impl at guard/src/commands/reporters/validate/generic_summary\.rs:\d+:\d+: \d+:\d+>::report_eval"),
             ("summary_table", r"summary_table::<impl at guard/src/commands/reporters/validate/summary_table\.rs:\d+:\d+: \d+:\d+>::report_eval")]
    RT = enum_variants(a.src, "rules/mod.rs", "RecordType")
    ER = struct_fields(a.src, "rules/eval_context.rs", "EventRecord")
    NS = struct_fields(a.src, "rules/mod.rs", "NamedStatus")
    for label, rx in links:
        ex = a.exec(rx, _report_models(), log=("insert", "bold", "print_summary", "colored_string", "retain"), unroll=2, max_paths=60000)
        a.fns.append(f"commands::reporters::validate::{label}::report_eval")
        inc = [ex.arg_env[f"_{i}"] for i in range(2, 10)]
        bad, ndel = [], 0
        hdr_map = {}
        for p in ex.paths:
            evs = [e for e in p.events if e[0] == "call"]
            for i, e in enumerate(evs):
                if e[1] == "bold" and e[2] and e[2][0][0] == "str":
                    nxt = [x for x in evs[i + 1:] if x[1] == "print_summary"]
                    if nxt and len(nxt[0][2]) >= 4:
                        hdr_map.setdefault(e[2][0][1], set()).add(str(nxt[0][2][3]))
        want_of = {}
        if label == "summary_table":
            for hdr, st in (("PASS rules", a.P), ("FAILED rules", a.F), ("SKIP rules", a.S)):
                ms = hdr_map.get(hdr, set())
                if len(ms) == 1:
                    want_of[next(iter(ms))] = st
        for p in ex.paths:
            probs = []
            evs = [e for e in p.events if e[0] == "call"]
            sj = [e for e in evs if e[1] == "simplified_json_from_root"]
            for e in sj:
                if not same(e[2][0], inc[2]):
                    probs.append("the report is built from something other than the record tree received")
            for e in evs:
                if e[1] in ("to_writer", "to_writer_pretty"):
                    if not (same(e[2][0], inc[0]) and sj and sj[-1][3][0] == "enum" and same(e[2][1], sj[-1][3][3]["Ok"])):
                        probs.append("the serialiser does not receive the report built from the record tree")
                if e[1] == "report_from_events" and not same(e[2][0], inc[2]):
                    probs.append("the single-line summary is not rendered from the record tree received")
                if e[1] == "single_line" and not (sj and sj[-1][3][0] == "enum" and any(same(x, sj[-1][3][3]["Ok"]) for x in e[2])):
                    probs.append("the single-line renderer does not receive the report built from the record tree")
                if e[1] == "report_eval":
                    ndel += 1
                    got = e[2][1:]
                    if len(got) != 8 or any(str(g) != str(w) for g, w in zip(got, inc)):
                        probs.append("delegation changes an argument (status / record tree / names / format)")
                if e[1] == "map_or" and len(e[2]) == 3 and e[2][2][0] == "struct":
                    ndel += 1
                    cap = e[2][2][2]
                    for k in ("status", "root_record", "output_type"):
                        if k not in cap:
                            probs.append(f"delegating closure does not capture {k}")
                    for k, v in cap.items():
                        if k in ARGN and str(v) != str(ex.arg_env[ARGN[k]]):
                            probs.append(f"delegating closure captures a different {k}")
                if e[1] == "colored_string" and e[2] and e[2][0][0] == "enum":
                    some = e[2][0][3].get("Some")
                    if some is not None and str(some) != str(inc[1]):
                        probs.append("the status line shows something other than the status received")
            parts = []
            if label == "summary_table":
                if len(want_of) != 3:
                    probs.append("the three summary maps could not be identified from the headers they are printed under")
                its = iterations(ex, p)
                it_idx = {i: k for k, _el, _t, i in its}
                cur, per = None, {}
                for i, e in enumerate(p.events):
                    if i in it_idx:
                        cur = it_idx[i]
                    if e[0] == "call" and e[1] == "insert":
                        per.setdefault(cur, []).append(e)
                for k, el, tag, _i in its:
                    if el is None:
                        continue
                    cont = field(ex, el, ER.index("container"), "Option")
                    some = payload(ex, cont, "Some")
                    ns = payload(ex, some, "RuleCheck")
                    isrule = f"(and (= {tag} 1) (= {disc(ex, cont)} 1) (= {disc(ex, some)} {RT.index('RuleCheck')}))"
                    st = field(ex, ns, NS.index("status"), "rules::Status")
                    nm = field(ex, ns, NS.index("name"), "&str")
                    ins = per.get(k, [])
                    if not ins:
                        parts.append(f"(not {isrule})")
                    elif len(ins) == 1 and str(ins[0][2][0]) in want_of and same(ins[0][2][1], nm):
                        parts.append(f"(and {isrule} (= {st[2]} {want_of[str(ins[0][2][0])]}))")
                    else:
                        parts.append("false")
                # on every path that returns Ok the next reporter was called
                r = p.ret
                if p.outcome == "return" and r and r[0] == "enum" and not [e for e in evs if e[1] == "report_eval"]:
                    parts.append(f"(= {r[2]} 1)")
            good = "(and true " + " ".join(parts) + ")"
            bad.append(f"(and {pc_term(p.pc)} (not {'false' if probs else good}))")
        c = a.discharge(f"reporters/{label}/verdict-passed-on", ex, bad,
                        f"{label}::report_eval ({ndel} delegations over all paths): reports are built by simplified_json_from_root from the "
                        "record tree received and that report is what gets serialised / rendered; a delegation to the next reporter passes "
                        "writer, status, record tree, names and format unchanged"
                        + ("; every RuleCheck child is filed under the header of its own status with its own name, nothing else is filed, "
                           "the status line shows the status received and the next reporter is always called" if label == "summary_table" else ""))
        if c:
            c["replay"] = replay_formats_agree(a)
            c["reproduced"] = c["replay"].get("reproduced", False)
            a.candidates.append(c)
    # the delegating closures themselves: captured values are passed on positionally
    for label, rx in links[:2]:
        k = 0
        while True:
            try:
                ex = a.exec(rx + r"::\{closure#" + str(k) + r"\}", _report_models(), unroll=1, max_paths=2000)
            except Untranslatable:
                break
            env = ex.arg_env["_1"]
            bad = []
            for p in ex.paths:
                dl = [e for e in p.events if e[0] == "call" and e[1] == "report_eval"]
                ok = (len(dl) == 1 and len(dl[0][2]) == 9 and same(dl[0][2][0], ex.arg_env["_2"])
                      and all(str(dl[0][2][1 + i]) == str(field(ex, env, i, "?")) or
                              (dl[0][2][1 + i][0] == "enum" and field(ex, env, i, "rules::Status")[0] == "enum"
                               and dl[0][2][1 + i][2] == field(ex, env, i, "rules::Status")[2]) for i in range(8)))
                if not ok:
                    bad.append(pc_term(p.pc))
            a.discharge(f"reporters/{label}/closure#{k}/captures-in-order", ex, bad,
                        f"{label}::report_eval::{{closure#{k}}}: calls next.report_eval once with its eight captured values in capture order")
            k += 1


def library_entry_wiring(a):
    """validate_and_return_json - the entry point of run_checks (library API, Lambda, FFI): same evaluation pair and the same
    report builder as the CLI"""
    OF = enum_variants(a.src, "commands/validate.rs", "OutputFormatType")

    def m_parser(ex, argv):
        return ex.fresh_result(ex.fresh_enum("Option", 2, "parsed", {"Some": ex.opq()}), "pr")
    saved = a.enums
    a.enums = dict(a.enums, OutputFormatType=OF)
    ex = a.exec(r"(?:commands::helper::)?validate_and_return_json",
                {"from_str": m_result_opq, "try_from": m_result_opq, "map_err": mirexec.m_identity, "rules_file": m_parser,
                 "new_extra": lambda ex, av: ex.opq(), "root_scope": m_scope, "eval_rules_file": mirexec.m_result_status,
                 "reset_recorder": lambda ex, av: ex.opq(), "extract": lambda ex, av: ex.opq(), "report_eval": mirexec.m_result_unit,
                 "to_string_pretty": m_result_opq, "from_utf8": m_result_opq, RC_NEW: mirexec.m_identity, "clone": mirexec.m_identity,
                 "from": lambda ex, av: ex.opq(), "to_owned": mirexec.m_identity, "to_string": mirexec.m_identity,
                 "to_vec": mirexec.m_identity, "buffer": lambda ex, av: ex.opq(), "empty": lambda ex, av: ex.opq(), "into_inner": m_result_opq,
                 "get_ref": lambda ex, av: ex.opq(), "flush": mirexec.m_result_unit, "unwrap": lambda ex, av: (av[0][3].get("Ok") or ex.opq()) if av and av[0][0] == "enum" else ex.opq()},
                log=("new", "buffer", "into_inner", "get_ref", "flush"), unroll=1, max_paths=20000)
    a.enums = saved
    a.fns.append("commands::helper::validate_and_return_json (library / Lambda / FFI entry)")
    bad, nev = [], 0
    for p in ex.paths:
        r = p.ret
        if p.outcome != "return" or not r or r[0] != "enum" or r[1] != "Result":
            bad.append(pc_term(p.pc))
            continue
        evs = calls(p, "eval_rules_file")
        tf = [e for e in calls(p, "try_from") if e[3][0] == "enum"]
        pr = [e for e in calls(p, "rules_file") if e[3][0] == "enum"]
        reps = calls(p, "report_eval")
        xs, rr = calls(p, "extract"), calls(p, "reset_recorder")
        probs = []
        if len(evs) > 1:
            probs.append("evaluated more than once")
        if evs:
            nev += 1
            rules = pr[0][3][3]["Ok"][3]["Some"] if pr and pr[0][3][3]["Ok"][0] == "enum" else None
            doc = tf[-1][3][3]["Ok"] if tf else None
            probs += pair_wiring(ex, p, lambda i: rules, lambda i: doc, lambda i: None)
            ok_rec = bool(rr) and bool(xs) and same(rr[0][2][0], evs[0][2][1]) and same(xs[0][2][0], rr[0][3])
            if not ok_rec and (reps or calls(p, "to_string_pretty")):
                probs.append("the record tree is not taken from this evaluation's scope")
            for rp in reps:
                args = rp[2][1:]
                if not (len(args) == 8 and xs and args[1][0] == "enum" and args[1][2] == evs[0][3][3]["Ok"][2] and same(args[2], xs[0][3])):
                    probs.append("the reporter does not receive this evaluation's status and record tree")
                if not (args[-1][0] == "enum" and args[-1][1] == "OutputFormatType" and args[-1][2] == str(OF.index("JSON"))):
                    probs.append("the library report is not rendered as JSON")
            for e in calls(p, "to_string_pretty"):
                if not (xs and same(e[2][0], xs[0][3])):
                    probs.append("verbose returns something other than this evaluation's record tree")
            if len(reps) + len(calls(p, "to_string_pretty")) > 1:
                probs.append("rendered twice")
        elif reps:
            probs.append("a report without an evaluation")
        bad.append(f"(and {pc_term(p.pc)} {'true' if probs else 'false'})")
    # what is handed back: ALL the bytes the reporter wrote. The writer is a BufWriter over a Vec: `buffer()` is only the not-yet-flushed
    # tail (at most its 8 KiB capacity); the complete text is `into_inner()` (which flushes) or the inner Vec after `flush()`
    bad2, nret = [], 0
    for p in ex.paths:
        reps = calls(p, "report_eval")
        if not reps or p.outcome != "return":
            continue
        fu = calls(p, "from_utf8")
        if not fu:
            continue                              # the reporter failed: the error is returned
        nret += 1
        w = reps[0][2][1] if len(reps[0][2]) > 1 else None
        inner = [e for e in calls(p, "into_inner") if e[3][0] == "enum"]
        whole = [e[3][3]["Ok"] for e in inner] + ([e[3] for e in calls(p, "get_ref")] if calls(p, "flush") else [])
        src_ok = any(same(fu[0][2][0], x) for x in whole) and not calls(p, "buffer")
        # reaching from_utf8 means into_inner succeeded (its error is returned before)
        bad2.append("false" if src_ok else pc_term(p.pc))
    c2 = a.discharge("library-entry/returns-everything-written", ex, bad2,
                     f"validate_and_return_json ({nret} paths that return a report): the text returned is the writer's COMPLETE contents (into_inner(), or the "
                     "inner buffer after flush()), never BufWriter::buffer(), which holds only the tail that was not flushed yet - a report larger than "
                     "the writer's 8 KiB capacity would come back truncated", witness=False)
    if c2:
        c2["replay"] = replay_library(a)
        c2["reproduced"] = c2["replay"].get("reproduced", False)
        a.candidates.append(c2)
    c = a.discharge("library-entry/same-pair-same-report", ex, bad,
                    f"validate_and_return_json ({nev} evaluating paths): the parsed rules and the converted data document are evaluated once, in "
                    "a scope built from exactly them; the JSON report is rendered by the generic reporter from that evaluation's status and "
                    "record tree (the same report builder as the CLI); verbose returns that same record tree")
    if c:
        c["replay"] = replay_library(a)
        c["reproduced"] = c["replay"].get("reproduced", False)
        a.candidates.append(c)


LIB_TEST = r'''
// written by /verif (replay of a library-entry candidate); lives only in the scratch copy
use cfn_guard::{run_checks, ValidateInput};
#[test]
fn zz_verif_library_report() {
    let data = "{\"a\":\n 1}\n";
    for (label, rules) in [__CASES__] {
        let out = run_checks(ValidateInput { content: data, file_name: "d.json" }, ValidateInput { content: rules, file_name: "r.guard" }, false);
        println!("VERIF-LIB {} {}", label, match out { Ok(s) => s.replace('\n', " "), Err(e) => format!("ERR {}", e) });
    }
}
'''


def replay_library(a):
    """run_checks (library entry) against the structured CLI report on three rules files: same status, same PASS / SKIP /
    FAIL sets. Compiles a throw-away integration test inside the scratch copy."""
    import os, subprocess
    exe = a.cli()
    if not exe:
        return {"reproduced": False, "note": "native build failed"}
    cases = {"mixed": "rule p1 {\n  a == 1\n}\nrule f1 {\n  a == 2\n}\nrule s1 when a == 2 {\n  a == 1\n}\n",
             "allpass": "rule p1 {\n  a == 1\n}\nrule s1 when a == 2 {\n  a == 1\n}\n",
             "allskip": "rule s1 when a == 2 {\n  a == 1\n}\n",
             # a report larger than a BufWriter's 8 KiB: the library must return all of it
             "big": "".join(f"rule f{i} {{\n  a == {i + 2} <<value number {i} is not what this rule wants to see here>>\n}}\n" for i in range(40))}
    tfile = os.path.join(a.src, "guard", "tests", "zz_verif_lib.rs")
    body = LIB_TEST.replace("__CASES__", ", ".join('("%s", %s)' % (k, json.dumps(v)) for k, v in cases.items()))
    env = dict(os.environ)
    env["CARGO_NET_OFFLINE"] = "true"
    env["RUST_BACKTRACE"] = "0"
    base = os.path.basename(a.src.rstrip("/"))
    env["CARGO_TARGET_DIR"] = os.path.join(os.path.dirname(a.src.rstrip("/")), "native-target" if base == "src" else "native-target-" + base)
    env.pop("RUSTUP_TOOLCHAIN", None)
    try:
        open(tfile, "w").write(body)
        pr = subprocess.run(["cargo", "test", "--offline", "-p", "cfn-guard", "--test", "zz_verif_lib", "--", "--nocapture"], cwd=a.src, env=env,
                            capture_output=True, text=True, timeout=1800)
    finally:
        if os.path.exists(tfile):
            os.remove(tfile)
    got = {}
    for line in pr.stdout.splitlines():
        m = re.match(r"^VERIF-LIB (\w+) (.*)$", line)
        if m:
            got[m.group(1)] = m.group(2)
    if len(got) != len(cases):
        return {"reproduced": False, "note": "library replay did not run: " + (pr.stderr or pr.stdout)[-300:]}
    out = []
    for label, rtext in cases.items():
        rc, rep, err = a.run_structured(exe, rtext, ['{"a":\n 1}\n'])
        try:
            lib = json.loads(got[label])
            ref = rep[0]
            same_ = (lib.get("status") == ref.get("status") and set(lib.get("compliant", [])) == set(ref.get("compliant", []))
                     and set(lib.get("not_applicable", [])) == set(ref.get("not_applicable", []))
                     and {x["Rule"]["name"] for x in lib.get("not_compliant", []) if "Rule" in x} == {x["Rule"]["name"] for x in ref.get("not_compliant", []) if "Rule" in x})
        except Exception as e:
            same_, lib = False, f"unparsable ({e}): {got[label][:200]}"
        if not same_:
            out.append({"rules_file": rtext, "library_report": str(lib)[:400], "cli_structured_report": str(rep)[:400]})
    return {"reproduced": bool(out), "mismatches": out[:2], "cases": list(cases)}


def report_combine_union(a):
    """FileReport::combine: the combined report is the union of the two reports, list by list"""
    FR = struct_fields(a.src, "rules/eval_context.rs", "FileReport")
    ex = a.exec(r"(?:(?:rules::)?eval_context::)?<impl at guard/src/rules/eval_context\.rs:\d+:\d+: \d+:\d+>::combine",
                {"and": lambda ex, av: ("enum", "Status", ex.fresh("Int", "andst"), {}), "ne": lambda ex, av: ex.havoc("bool"),
                 "eq": lambda ex, av: ex.havoc("bool")},
                log=("extend", "and"), unroll=1, max_paths=200, first_arg_re=r"_1: &mut (?:eval_context::)?FileReport")
    a.fns.append("rules::eval_context::FileReport::combine")
    me, other = ex.arg_env["_1"], ex.arg_env["_2"]
    bad = []
    for p in ex.paths:
        if p.outcome == "panic":
            continue                      # different names: "Incompatible to merge" (decided by the Kani K4 harness: never for equal names)
        exts = calls(p, "extend")
        probs = []
        seen = {}
        for e in exts:
            tgt, src = e[2][0], e[2][1]
            tname = next((n for n in FR if same(tgt, field(ex, me, FR.index(n), "?"))), None)
            sname = next((n for n in FR if same(src, field(ex, other, FR.index(n), "?"))), None)
            if tname is None or sname is None or tname != sname:
                probs.append(f"a list is extended with something other than the other report's list of the same name ({tname} <- {sname})")
            else:
                seen[tname] = seen.get(tname, 0) + 1
        for n in ("not_compliant", "compliant", "not_applicable"):
            if seen.get(n) != 1:
                probs.append(f"`{n}` of the other report is not added exactly once, unfiltered")
        ands = calls(p, "and")
        if not (len(ands) == 1 and ands[0][2][0][0] == "enum" and ands[0][2][1][0] == "enum"):
            probs.append("the status is not combined with Status::and")
        bad.append(pc_term(p.pc) if probs else "false")
    c = a.discharge("FileReport::combine/union", ex, bad,
                    "combining two reports of one data file: each of not_compliant / compliant / not_applicable receives the WHOLE corresponding "
                    "list of the other report (no entry filtered by what the accumulated report already holds, so the result does not depend "
                    "on the order of combination), the status is Status::and of the two", witness=False)
    if c:
        c["replay"] = replay_combine_order(a)
        c["reproduced"] = c["replay"].get("reproduced", False)
        a.candidates.append(c)


def replay_combine_order(a):
    """two rules files defining a rule of the same name with different statuses, against one data file, in both orders and
    alone: the combined structured report lists the union of the single reports, whatever the order"""
    import itertools, os, shutil, subprocess, tempfile
    exe = a.cli()
    if not exe:
        return {"reproduced": False, "note": "native build failed"}
    defs = {"PASS": "rule same {\n  a == 1\n}\n", "FAIL": "rule same {\n  a == 2\n}\n", "SKIP": "rule same when a == 2 {\n  a == 1\n}\n"}
    d = tempfile.mkdtemp(prefix="cfnverif_replay_")
    env = dict(os.environ)
    env["RUST_BACKTRACE"] = "0"
    out, tried = [], []

    def run(files):
        args = [exe, "validate", "--structured", "-o", "json", "--show-summary", "none", "-d", "d.json"]
        for f in files:
            args += ["-r", f]
        pr = subprocess.run(args, cwd=d, capture_output=True, text=True, env=env, timeout=60)
        try:
            r = json.loads(pr.stdout)[0]
            return (r.get("status"), tuple(sorted(r.get("compliant", []))), tuple(sorted(r.get("not_applicable", []))),
                    tuple(sorted(x["Rule"]["name"] for x in r.get("not_compliant", []) if "Rule" in x)), pr.returncode)
        except Exception:
            return None
    try:
        open(os.path.join(d, "d.json"), "w").write('{"a":\n 1}\n')
        for s1, s2 in itertools.permutations(("PASS", "FAIL", "SKIP"), 2):
            open(os.path.join(d, "x.guard"), "w").write(defs[s1])
            open(os.path.join(d, "y.guard"), "w").write(defs[s2])
            one, two, xy, yx = run(["x.guard"]), run(["y.guard"]), run(["x.guard", "y.guard"]), run(["y.guard", "x.guard"])
            if None in (one, two, xy, yx):
                tried.append({"statuses": [s1, s2], "problem": "no report"})
                continue
            union = tuple(tuple(sorted(set(one[i]) | set(two[i]))) for i in (1, 2, 3))
            ok = xy[1:4] == union and yx[1:4] == union and xy == yx
            tried.append({"statuses": [s1, s2], "ok": ok})
            if not ok:
                out.append({"x.guard": defs[s1], "y.guard": defs[s2], "alone": [str(one), str(two)], "x then y": str(xy), "y then x": str(yx)})
        return {"reproduced": bool(out), "mismatches": out[:3], "tried": tried,
                "note": "; ".join(str(t["statuses"]) + ": " + t["problem"] for t in tried if "problem" in t) or None}
    finally:
        shutil.rmtree(d, ignore_errors=True)


def rulegen_unwrap(a):
    """rulegen: gen_rules must not unwrap something a template can make absent (a resource without a string `Type`)"""
    ex = a.exec(r"(?:commands::rulegen::)?gen_rules",
                {"next": mirexec.m_iter_next, "into_iter": mirexec.m_new_iter, "iter": mirexec.m_new_iter, "from_value": m_result_opq,
                 "as_str": mirexec.m_option, "index": lambda ex, av: ex.opq(), "clone": mirexec.m_identity,
                 "contains_key": lambda ex, av: ex.havoc("bool"), "is_string": lambda ex, av: ex.havoc("bool"),
                 "insert": lambda ex, av: ex.opq(), "collect": lambda ex, av: ex.opq(), "new": lambda ex, av: ex.opq()},
                log=("unwrap", "get_mut", "expect"), unroll=1, max_paths=20000)
    a.fns.append("commands::rulegen::gen_rules")
    bad, nun = [], 0
    for p in ex.paths:
        for e in p.events:
            if e[0] == "call" and e[1] in ("unwrap", "expect") and e[2] and e[2][0][0] == "enum" and e[2][0][1] == "Option":
                src = e[2][0]
                # an Option produced by Value::as_str on template content: absent whenever the template says so
                came_from_as_str = any(x[0] == "call" and x[1] == "as_str" and x[3] == src for x in p.events)
                if came_from_as_str:
                    nun += 1
                    bad.append(f"(and {pc_term(p.pc)} (= {src[2]} 0))")
    c = a.discharge("rulegen/gen_rules/no-unwrap-of-template-content", ex, bad,
                    f"gen_rules, one resource x one property ({nun} unwrap sites on `as_str()` results): no path unwraps the result of reading a "
                    "template field as a string while that result can be None (a resource whose Type is missing or not a string)", witness=True)
    if c:
        c["replay"] = replay_rulegen_odd_templates(a)
        c["reproduced"] = c["replay"].get("reproduced", False)
        a.candidates.append(c)


def replay_rulegen_odd_templates(a):
    import os, shutil, subprocess, tempfile
    exe = a.cli()
    if not exe:
        return {"reproduced": False, "note": "native build failed"}
    templates = {"resource without Type": '{"Resources": {"a": {"Properties": {"x": 1}}}}',
                 "numeric Type": '{"Resources": {"a": {"Type": 5, "Properties": {"x": 1}}}}',
                 "null Type": '{"Resources": {"a": {"Type": null, "Properties": {"x": 1}}, "b": {"Type": "AWS::X::Y", "Properties": {"x": 1}}}}',
                 "ordinary": '{"Resources": {"b": {"Type": "AWS::X::Y", "Properties": {"x": 1}}}}'}
    d = tempfile.mkdtemp(prefix="cfnverif_replay_")
    env = dict(os.environ)
    env["RUST_BACKTRACE"] = "0"
    out = []
    try:
        for label, t in templates.items():
            open(os.path.join(d, "t.json"), "w").write(t)
            pr = subprocess.run([exe, "rulegen", "-t", "t.json"], cwd=d, capture_output=True, text=True, env=env, timeout=60)
            if pr.returncode == 101 or "panicked" in pr.stderr:
                out.append({"template": t, "case": label, "exit": pr.returncode, "stderr": pr.stderr[-200:]})
        return {"reproduced": bool(out), "mismatches": out[:3]}
    finally:
        shutil.rmtree(d, ignore_errors=True)


def test_result_exit_code(a):
    """`cfn-guard test -o json|yaml|junit`: TestResult::get_exit_code, its `any` closure and TestCase::has_failures"""
    c_ = mirsmt.consts_of(a.mir)
    OK, TERR, TFAIL = c_["SUCCESS_STATUS_CODE"], c_["TEST_ERROR_STATUS_CODE"], c_["TEST_FAILURE_STATUS_CODE"]
    TR = enum_variants(a.src, "commands/reporters/test/structured.rs", "TestResult")
    TC = struct_fields(a.src, "commands/reporters/test/structured.rs", "TestCase")
    IMPL = r"(?:reporters::test::)?structured::<impl at guard/src/commands/reporters/test/structured\.rs:\d+:\d+: \d+:\d+>::"
    ex = a.exec(IMPL + "get_exit_code", {"any": lambda ex, av: ex.havoc("bool"), "iter": mirexec.m_new_iter, "deref": mirexec.m_identity},
                log=("any",), unroll=1, max_paths=200, first_arg_re=r"_1: &TestResult")
    a.fns.append("commands::reporters::test::structured::TestResult::get_exit_code (+ closure, TestCase::has_failures)")
    me = ex.arg_env["_1"]
    bad = []
    for p in ex.paths:
        r = p.ret
        if p.outcome != "return" or r is None or r[0] != "int":
            bad.append(pc_term(p.pc))
            continue
        anys = calls(p, "any")
        iserr = f"(= {disc(ex, me)} {TR.index('Err')})"
        if anys:
            good = f"(and (not {iserr}) (= {r[1]} (ite {anys[0][3][1]} {TFAIL} {OK})))"
        else:
            good = f"(and {iserr} (= {r[1]} {TERR}))"
        bad.append(f"(and {pc_term(p.pc)} (not {good}))")
    a.discharge("test/structured/exit-code", ex, bad,
                "TestResult::get_exit_code: an unreadable / unparsable test file gives the test-error code; otherwise the test-failure code iff "
                "`any` test case has failures, else success")
    ex2 = a.exec(IMPL + r"get_exit_code::\{closure#0\}", {"has_failures": lambda ex, av: ex.havoc("bool")}, log=("has_failures",), unroll=1, max_paths=50)
    bad2 = []
    for p in ex2.paths:
        hf = calls(p, "has_failures")
        ok = p.outcome == "return" and len(hf) == 1 and p.ret == hf[0][3] and same(hf[0][2][0], ex2.arg_env["_2"])
        bad2.append("false" if ok else pc_term(p.pc))
    a.discharge("test/structured/exit-code/any-closure", ex2, bad2, "the predicate given to `any` is has_failures of the test case visited", witness=False)
    ex3 = a.exec(IMPL + "has_failures", {"is_empty": mirexec.m_is_empty}, log=("is_empty",), unroll=1, max_paths=50)
    me3 = ex3.arg_env["_1"]
    failed = field(ex3, me3, TC.index("failed_rules"), "Vec")
    bad3 = []
    for p in ex3.paths:
        r = p.ret
        ie = calls(p, "is_empty")
        ok = p.outcome == "return" and r is not None and r[0] == "bool" and len(ie) == 1 and same(ie[0][2][0], failed)
        bad3.append(f"(and {pc_term(p.pc)} (not (= {r[1]} (not (= {ex3.len_of(failed)} 0)))))" if ok else pc_term(p.pc))
    c = a.discharge("test/structured/has_failures", ex3, bad3, "a test case has failures iff its failed_rules list is not empty", witness=False)
    for x in a.ob.items[-4:]:
        if x["status"] == "refuted" and "replay" not in x:
            x["replay"] = replay_test_structured(a)
            x["reproduced"] = x["replay"].get("reproduced", False)
            a.candidates.append(x)


def param_ctx_end_record(a):
    """the record hook of a parameterised rule call (ResolvedParameterContext::end_record): what it may change in a record"""
    RT = enum_variants(a.src, "rules/mod.rs", "RecordType")
    NS = struct_fields(a.src, "rules/mod.rs", "NamedStatus")
    ex = a.exec(r"(?:rules::)?eval::<impl at guard/src/rules/eval\.rs:\d+:\d+: \d+:\d+>::end_record",
                {"eq": lambda ex, av: ex.havoc("bool"), "ne": lambda ex, av: ex.havoc("bool"), "end_record": mirexec.m_result_unit,
                 "clone": mirexec.m_identity, "deref": mirexec.m_identity},
                log=("eq", "ne"), unroll=1, max_paths=500, first_arg_re=r"_1: &mut ResolvedParameterContext")
    a.fns.append("rules::eval::<ResolvedParameterContext as RecordTracer>::end_record")
    me, ctx, rec = ex.arg_env["_1"], ex.arg_env["_2"], ex.arg_env["_3"]
    is_rule = f"(= {disc(ex, rec)} {RT.index('RuleCheck')})"
    ns = payload(ex, rec, "RuleCheck")
    nm, st, msg = (field(ex, ns, NS.index(k), "?") for k in ("name", "status", "message"))
    st = field(ex, ns, NS.index("status"), "rules::Status")
    bad = []
    for p in ex.paths:
        r = p.ret
        outs = calls(p, "end_record")
        if p.outcome != "return" or len(outs) != 1 or r != outs[0][3]:
            bad.append(pc_term(p.pc))
            continue
        o = outs[0]
        sent = o[2][2] if len(o[2]) > 2 else None
        if not same(o[2][1], ctx) or sent is None:
            bad.append(pc_term(p.pc))
            continue
        if same(sent, rec):
            # passed on untouched: fine for every kind of record (for a RuleCheck of ANOTHER name this is required)
            eqs = calls(p, "eq") + calls(p, "ne")
            bad.append("false")
            continue
        if sent[0] == "variant" and sent[2] == "RuleCheck" and sent[3] and same(sent[3][0], ns):
            bad.append(f"(and {pc_term(p.pc)} (not {is_rule}))")        # re-wrapped with the very same name / status / message
            continue
        ok = (sent[0] == "variant" and sent[2] == "RuleCheck" and sent[3] and sent[3][0][0] == "struct")
        if ok:
            f = sent[3][0][2]
            same_status = f.get("status") is not None and f["status"][0] == "enum" and st[0] == "enum" and f["status"][2] == st[2]
            ok = same(f.get("name"), nm) and same_status
            eqs = calls(p, "eq") + calls(p, "ne")
            # a rebuilt record only for the rule this call names (the name comparison must have been made and come out equal)
            if ok and eqs:
                e0 = eqs[0]
                cond = e0[3][1] if e0[1] == "eq" else f"(not {e0[3][1]})"
                bad.append(f"(and {pc_term(p.pc)} (not (and {is_rule} {cond})))")
                continue
        bad.append(pc_term(p.pc))
    c = a.discharge("parameterised-call/end_record/only-the-message-of-the-called-rule", ex, bad,
                    "record hook of a parameterised rule call: every record is passed to the caller's tracker under the same context; a record is "
                    "rebuilt only if it is the RuleCheck of the rule this call NAMES, and then it keeps that record's name and STATUS (only the "
                    "message may become the call's custom message); all other records - other rules' RuleChecks included - go through unchanged")
    if c:
        c["replay"] = replay_param_call_records(a)
        c["reproduced"] = c["replay"].get("reproduced", False)
        a.candidates.append(c)


def replay_param_call_records(a):
    """parameterised rule calls with / without a custom message, passing / failing / skipped, one nested in another: the
    record of the called rule has the status its body gives, and each Rule entry carries its OWN call's message"""
    import os, shutil, subprocess, tempfile
    exe = a.cli()
    if not exe:
        return {"reproduced": False, "note": "native build failed"}
    rules = ("rule inner(v) {\n  %v == 1\n}\nrule outer(w) {\n  inner(%w) <<inner call msg>>\n}\n"
             "rule top_fail {\n  outer(b) <<outer call msg>>\n}\nrule top_pass {\n  outer(a) <<outer call msg>>\n}\n"
             "rule plain_fail {\n  inner(b)\n}\nrule skipper {\n  inner(L[ x == 9 ].y) <<skip msg>>\n}\n")
    data = '{"a":\n 1, "b": 2, "L": [ {"x": 1, "y": 1} ]}\n'
    d = tempfile.mkdtemp(prefix="cfnverif_replay_")
    env = dict(os.environ)
    env["RUST_BACKTRACE"] = "0"
    out = []
    try:
        open(os.path.join(d, "r.guard"), "w").write(rules)
        open(os.path.join(d, "d.json"), "w").write(data)
        pr = subprocess.run([exe, "validate", "-r", "r.guard", "-d", "d.json", "--print-json", "--show-summary", "none"], cwd=d, capture_output=True,
                            text=True, env=env, timeout=60)
        txt = pr.stdout
        i = txt.find("{")
        try:
            tree = json.JSONDecoder().raw_decode(txt[i:])[0]
        except Exception as e:
            return {"reproduced": False, "note": f"no record tree: {e}"}

        def walk(n, acc):
            c_ = n.get("container") or {}
            if "RuleCheck" in c_:
                kids = []
                for ch in n.get("children", []):
                    walk(ch, kids)
                acc.append({"name": c_["RuleCheck"]["name"], "status": c_["RuleCheck"]["status"], "message": c_["RuleCheck"].get("message"), "inner": kids})
            else:
                for ch in n.get("children", []):
                    walk(ch, acc)
        top = []
        walk(tree, top)
        byname = {t["name"]: t for t in top}

        def find(t, name):
            for k in t["inner"]:
                if k["name"] == name:
                    return k
                r_ = find(k, name)
                if r_:
                    return r_
            return None
        exp = {"top_fail": ("FAIL", [("outer", "FAIL", "outer call msg"), ("inner", "FAIL", "inner call msg")]),
               "top_pass": ("PASS", [("outer", "PASS", "outer call msg"), ("inner", "PASS", "inner call msg")]),
               "plain_fail": ("FAIL", [("inner", "FAIL", None)]), "skipper": ("SKIP", [("inner", "SKIP", "skip msg")])}
        for rn, (rs, kids) in exp.items():
            t = byname.get(rn)
            if t is None or t["status"] != rs:
                out.append({"rule": rn, "expected_status": rs, "observed": t and t["status"]})
                continue
            for kn, ks, km in kids:
                k = find(t, kn)
                if k is None or k["status"] != ks or (k.get("message") or None) != km:
                    out.append({"rule": rn, "called": kn, "expected": [ks, km], "observed": k and [k["status"], k.get("message")]})
        return {"reproduced": bool(out), "mismatches": out[:4], "rules_file": rules, "data": data}
    finally:
        shutil.rmtree(d, ignore_errors=True)


def variable_tables(a):
    """C15: where a `let` ends up. extract_variables files every assignment of a block / rules file under ITS OWN name in the table of
    ITS kind (literal / query / function call) with ITS OWN value; block_scope / root_scope put exactly these tables into the scope,
    together with the root given and an EMPTY cache of resolved variables"""
    LE = struct_fields(a.src, "rules/exprs.rs", "LetExpr")
    LV = enum_variants(a.src, "rules/exprs.rs", "LetValue")
    EC = r"(?:(?:rules::)?eval_context::)?"
    ex = a.exec(EC + "extract_variables", {"next": mirexec.m_iter_next, "with_capacity": lambda ex, av: ex.opq(), "new": mirexec.m_identity,
                                           "as_str": mirexec.m_identity},
                log=("insert", "remove", "clear", "entry", "with_capacity"), unroll=2, max_paths=4000)
    a.fns.append("rules::eval_context::extract_variables")
    exprs = ex.arg_env["_1"]
    bad, nlet = [], 0
    for p in ex.paths:
        r = p.ret
        caps = calls(p, "with_capacity")
        if p.outcome != "return" or not r or r[0] != "tuple" or len(r[1]) != 3 or len(caps) != 3 or [c[3] for c in caps] != list(r[1]):
            bad.append(pc_term(p.pc))
            continue
        tables = dict(zip(("Value", "AccessClause", "FunctionCall"), r[1]))
        its = iterations(ex, p)
        idx = [i for _k, _e, _t, i in its] + [len(p.events)]
        terms, ok = [], not (calls(p, "remove") or calls(p, "clear") or calls(p, "entry"))
        # the loop runs over the assignment list given - not over a slice, a skipped / filtered / reversed view of it
        ok = ok and all(e[2] and e[2][0][0] == "opaque" and ex.iter_src.get(e[2][0][1], e[2][0]) == exprs for e in calls(p, "next"))
        seen_ins = 0
        for n, (k, el, tag, i0) in enumerate(its):
            seg = [e for i, e in enumerate(p.events) if i0 < i < idx[n + 1] and e[0] == "call" and e[1] == "insert"]
            seen_ins += len(seg)
            if f"(= {tag} 1)" not in p.pc:
                ok = ok and not seg
                continue
            nlet += 1
            if len(seg) != 1 or el is None or el[0] != "opaque":
                ok = False
                continue
            ins = seg[0]
            name = ex.proj.get((el[1], f".{LE.index('var')}"))
            val = ex.proj.get((el[1], f".{LE.index('value')}"))
            d = disc(ex, val) if val is not None else None
            alts = []
            for var in LV:
                pay = ex.proj.get((val[1], f"as {var}.0")) if val is not None and val[0] == "opaque" else None
                hit = (name is not None and ins[2][0] == tables.get(var) and ins[2][1] == name and pay is not None and ins[2][2] == pay)
                alts.append(f"(and (= {d} {LV.index(var)}) {'true' if hit else 'false'})")
            terms.append("(or " + " ".join(alts) + ")")
        ok = ok and seen_ins == len(calls(p, "insert"))
        n_it = "(+ 0 0 " + " ".join(f"(ite (= {t} 1) 1 0)" for _k, _e, t, _i in its) + ")"
        good = "(and " + " ".join(terms + ["true" if ok else "false", f"(= {n_it} {len(calls(p, 'insert'))})"]) + ")"
        bad.append(f"(and {pc_term(p.pc)} (not {good}))")
    c = a.discharge("extract_variables/own-name-own-table", ex, bad,
                    f"extract_variables over <= 2 assignments ({nlet} assignments over all paths): every assignment is inserted exactly once, under its "
                    "own variable name, into the table of its kind (literal / query / function call) with its own value; nothing is removed; the three "
                    "tables returned are the ones filled")
    if c:
        c["replay"] = replay_scopes(a)
        c["reproduced"] = c["replay"].get("reproduced", False)
        a.candidates.append(c)
    # --- block_scope / root_scope: the tables and the root land in the scope; the cache starts empty
    SC = struct_fields(a.src, "rules/eval_context.rs", "Scope")
    BLK = struct_fields(a.src, "rules/exprs.rs", "Block")
    RF = struct_fields(a.src, "rules/exprs.rs", "RulesFile")
    for fn, label, src_arg, src_key, root_arg in (("block_scope", "block scope", "_1", f".{BLK.index('assignments')}", "_2"),
                                                   ("root_scope", "file scope", "_1", f".{RF.index('assignments')}", "_2")):
        def m_ext(ex, argv):
            return ("tuple", [ex.opq(), ex.opq(), ex.opq()])
        ex = a.exec(EC + fn, {"extract_variables": m_ext, "new": lambda ex, av: ("struct", "EmptyMap", {}), "next": mirexec.m_iter_next,
                              "root_scope_with": lambda ex, av: ("struct", "RootScopeWith", {str(i): v for i, v in enumerate(av)}),
                              "with_capacity": lambda ex, av: ex.opq(), "entry": lambda ex, av: ex.opq(), "or_insert": lambda ex, av: ex.opq()},
                    log=("insert", "push"), unroll=1, max_paths=2000, deepen=False)
        a.fns.append("rules::eval_context::" + fn)
        bad = []
        for p in ex.paths:
            evs = calls(p, "extract_variables")
            r = p.ret
            if p.outcome != "return" or len(evs) != 1 or r is None:
                bad.append(pc_term(p.pc))
                continue
            lit, qs, fs = evs[0][3][1]
            src_ok = origin(ex, evs[0][2][0]) == (ex.arg_env[src_arg], [src_key])
            if fn == "block_scope":
                sc = r[2].get("scope") if r[0] == "struct" else None
                ok = (src_ok and sc is not None and sc[0] == "struct" and sc[2].get("literals") == lit and sc[2].get("variable_queries") == qs
                      and sc[2].get("function_expressions") == fs and sc[2].get("root") == ex.arg_env[root_arg]
                      and sc[2].get("resolved_variables") == ("struct", "EmptyMap", {}) and r[2].get("parent") == ex.arg_env["_3"])
            else:
                args = list(r[2].values()) if r[0] == "struct" and r[1] == "RootScopeWith" else []
                ok = src_ok and len(args) == 6 and args[0] == lit and args[1] == qs and args[4] == fs and args[5] == ex.arg_env[root_arg]
            bad.append(f"(and {pc_term(p.pc)} (not {'true' if ok else 'false'}))")
        c = a.discharge(f"{fn}/tables-into-scope", ex, bad,
                        f"{label}: the variable tables are extracted from THIS block's / file's own assignments and stored as the scope's literals / "
                        "queries / function calls, with the root given" + ("; the cache of resolved variables starts empty; the parent is the scope given"
                                                                         if fn == "block_scope" else " (handed to root_scope_with in that order)"))
        if c:
            c["replay"] = replay_scopes(a)
            c["reproduced"] = c["replay"].get("reproduced", False)
            a.candidates.append(c)


def test_exit_code_domain(a):
    """C08 / C06: commands::test::get_exit_code(acc, code) ends in unreachable!() for anything but the three test exit codes. Both
    structured `test` handlers fold with it: along every path (<= 2 rules files, from the initial accumulator), both arguments of every
    call are one of {success, test error, test failure} - given that get_exit_code and TestResult::get_exit_code return one of the three
    (the Kani kernel k10 and the obligation test/structured/exit-code), and the value returned at the end is one of the three too"""
    OK, ERR, FAILC = consts(a)
    src = open(os.path.join(a.src, "guard", "src", "commands", "mod.rs")).read()
    codes = {}
    for nm in ("SUCCESS_STATUS_CODE", "TEST_ERROR_STATUS_CODE", "TEST_FAILURE_STATUS_CODE"):
        m = re.search(r"const " + nm + r": i32 = (-?\d+);", src)
        if not m:
            raise Untranslatable(nm + " not found")
        codes[nm] = int(m.group(1))
    dom = sorted(set(codes.values()))
    in_dom = lambda t: "(or " + " ".join(f"(= {t} {c})" for c in dom) + ")"

    def m_gec(ex, av):
        r = ex.fresh_int("i32", "code")
        ex.side.append(in_dom(r[1]))
        return r
    models = {"get_exit_code": m_gec, "next": mirexec.m_iter_next, "into_iter": mirexec.m_new_iter, "get_rule_content": m_result_opq,
              "rules_file": lambda ex, av: ex.fresh_result(ex.fresh_enum("Option", 2, "parsed", {"Some": ex.opq()}), "parse"),
              "evaluate": m_result_opq, "is_empty": lambda ex, av: ("bool", ex.fresh("Bool", "emp")), "get_test_files": lambda ex, av: ex.opq(),
              "to_writer": mirexec.m_result_unit, "to_writer_pretty": mirexec.m_result_unit, "serialize": mirexec.m_result_unit,
              "from": lambda ex, av: ex.opq()}
    for fn in ("handle_structured_directory_report", "handle_structured_single_report"):
        ex = a.exec(r"(?:commands::test::)?" + fn, models, unroll=2, max_paths=400000, deepen=False)
        a.fns.append("commands::test::" + fn)
        bad, ncall = [], 0
        for p in ex.paths:
            for e in calls(p, "get_exit_code"):
                if len(e[2]) != 2:
                    continue
                ncall += 1
                for av in e[2]:
                    if av[0] != "int":
                        bad.append(pc_term(p.pc))
                    elif not re.fullmatch(r"-?\d+", av[1]) or int(av[1]) not in dom:
                        bad.append(f"(and {pc_term(p.pc)} (not {in_dom(av[1])}))")
            r = p.ret
            if p.outcome == "return" and r and r[0] == "enum" and r[1] == "Result" and r[3].get("Ok") is not None and r[3]["Ok"][0] == "int":
                bad.append(f"(and {pc_term(p.pc)} (= {r[2]} 0) (not {in_dom(r[3]['Ok'][1])}))")
        c = a.discharge(f"test/{fn}/exit-code-domain", ex, bad,
                        f"{fn}, <= 2 rules files ({ncall} get_exit_code calls over all paths): every accumulator and every per-file code handed to "
                        f"get_exit_code is one of {dom} (anything else reaches its unreachable!()), and so is the code returned")
        if c:
            c["replay"] = replay_test_directory_errors(a)
            c["reproduced"] = c["replay"].get("reproduced", False)
            a.candidates.append(c)


def replay_test_directory_errors(a):
    """`cfn-guard test -d <dir>` with rules files that cannot be read (invalid UTF-8) / do not parse / fail / pass, each with a tests
    file, in every order of <= 3: never a crash; exit 0 iff all pass, non-zero otherwise; for structured outputs a report is written"""
    import itertools, os, shutil, subprocess, tempfile
    exe = a.cli()
    if not exe:
        return {"reproduced": False, "note": "native build failed"}
    kinds = {"P": (b"rule r { a == 1 }\n", "PASS"), "F": (b"rule r { a == 1 }\n", "FAIL"), "B": (b"rule r { a == }\n", "PASS"),
             "U": (b"rule r { a == 1 }\n# \xff\xfe\xfa bytes that are not UTF-8\n", "PASS")}
    out, tried = [], 0
    env = dict(os.environ)
    env["RUST_BACKTRACE"] = "0"
    for n in (1, 2, 3):
        for seq in itertools.product("PFBU", repeat=n):
            if n == 3 and not ("U" in seq or "B" in seq):
                continue
            d = tempfile.mkdtemp(prefix="cfnverif_replay_")
            try:
                os.makedirs(os.path.join(d, "tests"))
                for i, k in enumerate(seq):
                    body, exp = kinds[k]
                    open(os.path.join(d, f"f{i}.guard"), "wb").write(body)
                    open(os.path.join(d, "tests", f"f{i}_tests.yaml"), "w").write(
                        f"- name: c\n  input:\n    a: 1\n  expectations:\n    rules:\n      r: {exp}\n")
                for fmt in ("single-line-summary", "json", "junit"):
                    pr = subprocess.run([exe, "test", "-d", d, "-o", fmt], capture_output=True, env=env, timeout=60)
                    tried += 1
                    rc = pr.returncode
                    crashed = rc == 101 or b"panicked" in pr.stderr
                    want_zero = set(seq) <= {"P"}
                    if crashed or (rc == 0) != want_zero:
                        out.append({"rules_files": list(seq), "format": fmt, "exit": rc, "expected": "0" if want_zero else "non-zero, no crash",
                                    "stderr": pr.stderr.decode("utf-8", "replace")[-200:]})
            finally:
                shutil.rmtree(d, ignore_errors=True)
    return {"reproduced": bool(out), "mismatches": out[:4], "runs": tried,
            "legend": "P: passes, F: expectation not met, B: does not parse, U: not UTF-8 (cannot be read)"}


def report_clause_content(a):
    """C09 / C10: what a failing clause's report says. For the record being visited, the values and the operator shown are THAT record's:
    Binary/Resolved -> (from, to, (operator, not)) of the comparison record; Binary/UnResolved and Unary/UnResolved -> the record's
    unresolved value; Unary/Resolved -> the record's value; the operator pair is never altered; nothing comes from another record"""
    ER = struct_fields(a.src, "rules/eval_context.rs", "EventRecord")
    CCC = struct_fields(a.src, "rules/mod.rs", "ComparisonClauseCheck")
    ICC = struct_fields(a.src, "rules/mod.rs", "InComparisonCheck")
    UVC = struct_fields(a.src, "rules/mod.rs", "UnaryValueCheck")
    VC = struct_fields(a.src, "rules/mod.rs", "ValueCheck")
    ex = a.exec(r"(?:(?:rules::)?eval_context::)?report_all_failed_clauses_for_rules",
                {"next": mirexec.m_iter_next, "into_iter": mirexec.m_new_iter, "iter": mirexec.m_new_iter,
                 "report_all_failed_clauses_for_rules": lambda ex, av: ex.opq(), "default": lambda ex, av: ex.opq()},
                log=("push", "extend"), unroll=1, max_paths=60000, deepen=False)
    a.fns.append("rules::eval_context::report_all_failed_clauses_for_rules (clause reports)")
    CONT = [f".{ER.index('container')}", "as Some.0", "as ClauseValueCheck.0"]

    def org(v, el):
        o, ks = origin(ex, v) if v is not None and v[0] == "opaque" else (None, [])
        # the element itself is a projection `[k]` of the argument
        eo, eks = origin(ex, el)
        return ks[len(eks):] if o == eo and ks[:len(eks)] == eks else None

    def pair_ok(t, el, base):
        """(operator, not) pair of the report == the record's pair at `base`"""
        if t is None or t[0] != "tuple" or len(t[1]) != 2:
            return org(t, el) == base if t is not None and t[0] == "opaque" else False
        op_ok = org(t[1][0], el) == base + [".0"]
        cmpt = None
        # the bool half is a havoc'd projection: find the tuple value and compare with its `.1`
        cur = el
        for k in base:
            nxt = ex.proj.get((cur[1], k)) if cur is not None and cur[0] == "opaque" else None
            cur = nxt
        notv = ex.proj.get((cur[1], ".1")) if cur is not None and cur[0] == "opaque" else None
        return op_ok and notv is not None and t[1][1] == notv
    bad, nrep = [], 0
    for p in ex.paths:
        if p.outcome != "return":
            continue
        its = iterations(ex, p, it_filter=lambda ev: ex.iter_src.get(ev[2][0][1], ev[2][0]) == ex.arg_env["_1"])
        it_idx = {i: el for k, el, _t, i in its}
        cur, probs = None, []
        for i, e in enumerate(p.events):
            if i in it_idx:
                cur = it_idx[i]
            if not (e[0] == "call" and e[1] == "push" and len(e[2]) == 2 and e[2][1][0] == "variant" and e[2][1][2] == "Clause" and e[2][0] == p.ret):
                continue
            nrep += 1
            rep = e[2][1][3][0]
            kind = rep[2] if rep[0] == "variant" else None
            body = rep[3][0] if rep[0] == "variant" and rep[3] else None
            chk = body[2].get("check") if body is not None and body[0] == "struct" else None
            if cur is None or chk is None or chk[0] != "variant":
                probs.append("a clause report of unknown shape")
                continue
            inner = chk[3][0] if chk[3] else None
            f = inner[2] if inner is not None and inner[0] == "struct" else {}
            if kind == "Binary" and chk[2] == "Resolved":
                base = CONT + ["as Comparison.0"]
                ok = (org(f.get("from"), cur) == base + [f".{CCC.index('from')}", "as Resolved.0"]
                      and org(f.get("to"), cur) == base + [f".{CCC.index('to')}", "as Some.0", "as Resolved.0"]
                      and pair_ok(f.get("comparison"), cur, base + [f".{CCC.index('comparison')}"]))
            elif kind == "Binary" and chk[2] == "UnResolved":
                base = CONT + ["as Comparison.0"]
                ok = (org(f.get("value"), cur) in (base + [f".{CCC.index('from')}", "as UnResolved.0"],
                                                   base + [f".{CCC.index('to')}", "as Some.0", "as UnResolved.0"])
                      and pair_ok(f.get("comparison"), cur, base + [f".{CCC.index('comparison')}"]))
            elif kind == "Binary" and chk[2] == "InResolved":
                base = CONT + ["as InComparison.0"]
                ok = org(f.get("comparison"), cur) == base + [f".{ICC.index('comparison')}"] or pair_ok(f.get("comparison"), cur, base + [f".{ICC.index('comparison')}"])
            elif kind == "Unary" and chk[2] in ("Resolved", "UnResolved"):
                base = CONT + ["as Unary.0"]
                ok = (org(f.get("value"), cur) == base + [f".{UVC.index('value')}", f".{VC.index('from')}", f"as {chk[2]}.0"]
                      and pair_ok(f.get("comparison"), cur, base + [f".{UVC.index('comparison')}"]))
            elif kind == "Unary" and chk[2] == "UnResolvedContext":
                ok = True            # text only
            else:
                ok = False
            if not ok:
                probs.append(f"{kind}/{chk[2]} report does not show the visited record's own values / operator")
        bad.append(f"(and {pc_term(p.pc)} (not {'false' if probs else 'true'}))")
    c = a.discharge("report_all_failed_clauses_for_rules/clause-content", ex, bad,
                    f"report builder over one record ({nrep} clause reports over all paths): a comparison report shows the record's own `from` and `to` "
                    "values (not swapped, not another record's) and its own (operator, not) pair; a unary report the record's own value and pair; an "
                    "unresolved report the record's own unresolved value; an in-report the record's own pair")
    if c:
        c["replay"] = replay_clause_reports(a)
        c["reproduced"] = c["replay"].get("reproduced", False)
        a.candidates.append(c)


def replay_clause_reports(a):
    """failing clauses of every kind on one document: each reported check must name the clause's own left value (path and value), its
    own right value and its own operator"""
    exe = a.cli()
    if not exe:
        return {"reproduced": False, "note": "native build failed"}
    data = '{"a": 1,\n "b": 2,\n "s": "x",\n "l": [5, 6],\n "m": {"k": 7}}\n'
    cases = [  # (clause, kind, expected from.path, from.value, to.path or literal value, operator, not)
        # (query == query is reported as a set difference, by design: not asserted here)
        ("a > b", "Binary", "/a", 1, ("/b", 2), "Gt", False), ("b < a", "Binary", "/b", 2, ("/a", 1), "Lt", False),
        ("a != 1", "Binary", "/a", 1, ("", 1), "Eq", True), ("b <= 1", "Binary", "/b", 2, ("", 1), "Le", False),
        ("a >= 3", "Binary", "/a", 1, ("", 3), "Ge", False), ("m.k <= a", "Binary", "/m/k", 7, ("/a", 1), "Le", False),
        ("s is_list", "Unary", "/s", "x", None, "IsList", False), ("a !exists", "Unary", "/a", 1, None, "Exists", True),
        ("l empty", "Unary", "/l", [5, 6], None, "Empty", False), ("a is_string", "Unary", "/a", 1, None, "IsString", False),
        # not comparable with the right-hand side: still the clause's own message
        ("s >= 3", "Binary", "/s", "x", ("", 3), "Ge", False), ("a == \"x\"", "Binary", "/a", 1, ("", "x"), "Eq", False),
    ]
    out = []
    for clause, kind, fpath, fval, to, op, neg in cases:
        rc, rep, err = a.run_structured(exe, f"rule t {{\n  {clause} <<the clause's message>>\n}}\n", [data])
        if not (rep and isinstance(rep, list) and rep):
            out.append({"clause": clause, "problem": "no report", "exit": rc, "stderr": (err or "")[-200:]})
            continue
        found, msgs = [], []

        def walk(o):
            if isinstance(o, dict):
                if kind in o and isinstance(o[kind], dict) and "check" in o[kind]:
                    found.append(o[kind]["check"])
                    msgs.append((o[kind].get("messages") or {}).get("custom_message"))
                for v in o.values():
                    walk(v)
            elif isinstance(o, list):
                for v in o:
                    walk(v)
        walk(rep[0].get("not_compliant", []))
        if len(found) != 1:
            out.append({"clause": clause, "problem": f"{len(found)} {kind} checks reported, expected 1"})
            continue
        chk = found[0]
        inner = next(iter(chk.values())) if isinstance(chk, dict) and chk else {}
        if kind == "Binary":
            frm, t, cmpv = inner.get("from", {}), inner.get("to", {}), inner.get("comparison")
            ok = (frm.get("path") == fpath and frm.get("value") == fval and t.get("path") == to[0] and t.get("value") == to[1] and cmpv == [op, neg])
        else:
            v, cmpv = inner.get("value", {}), inner.get("comparison")
            ok = v.get("path") == fpath and v.get("value") == fval and cmpv == [op, neg]
        if not ok:
            out.append({"clause": clause, "expected": {"from": [fpath, fval], "to": to, "comparison": [op, neg]}, "reported": chk})
        elif (msgs[0] or "").strip() != "the clause's message":
            out.append({"clause": clause, "expected_custom_message": "the clause's message", "reported_custom_message": msgs[0]})
    return {"reproduced": bool(out), "mismatches": out[:4], "document": data}


def supported_extension_predicate(a):
    """C17 / C12: which files are picked up as data / parameter files. has_a_supported_extension(name, extensions) is exactly
    `some extension is a suffix of the name` - the std `any` over the extension list with the predicate name.ends_with(extension) -
    and consults nothing else (callers hand it absolute paths for --data and base names for --input-parameters: any further condition
    on the name treats the two differently)"""
    ex = a.exec(r"(?:commands::validate::)?has_a_supported_extension", {"any": lambda ex, av: ex.havoc("bool")},
                log=("any", "starts_with", "ends_with", "contains", "find", "len", "is_empty", "eq", "ne"), unroll=1, max_paths=200, deepen=False)
    a.fns.append("commands::validate::has_a_supported_extension")
    bad = []
    for p in ex.paths:
        cs = [e for e in p.events if e[0] == "call" and e[1] not in ("iter", "into_iter")]
        ok = (p.outcome == "return" and len(cs) == 1 and cs[0][1] == "any" and "slice::Iter" in str(cs[0][5])
              and ex.iter_src.get(cs[0][2][0][1], cs[0][2][0]) == ex.arg_env["_2"] and p.ret == cs[0][3]
              and cs[0][2][1][0] == "struct" and list(cs[0][2][1][2].values()) == [ex.arg_env["_1"]])
        bad.append(f"(and {pc_term(p.pc)} (not {'true' if ok else 'false'}))")
    c1 = a.discharge("has_a_supported_extension/any-suffix", ex, bad,
                     "has_a_supported_extension: the answer is std's `any` over the extension list given, with a predicate that captures the name given, "
                     "returned unchanged; no other test of the name takes part")
    ex2 = a.exec(r"(?:commands::validate::)?has_a_supported_extension::\{closure#0\}", {"ends_with": lambda ex, av: ex.havoc("bool")},
                 log=("ends_with", "starts_with", "contains"), unroll=1, max_paths=50, deepen=False)
    bad2 = []
    for p in ex2.paths:
        cs = [e for e in p.events if e[0] == "call"]
        name = ex2.proj.get((ex2.arg_env["_1"][1], ".0"))
        ok = (p.outcome == "return" and len(cs) == 1 and cs[0][1] == "ends_with" and name is not None and cs[0][2][0] == name
              and cs[0][2][1] == ex2.arg_env["_2"] and p.ret == cs[0][3])
        bad2.append(f"(and {pc_term(p.pc)} (not {'true' if ok else 'false'}))")
    c2 = a.discharge("has_a_supported_extension/predicate", ex2, bad2, "the predicate is name.ends_with(extension) for the name captured and the "
                     "extension visited, returned unchanged", witness=False)
    for c in (c1, c2):
        if c:
            c["replay"] = replay_parameter_file_names(a)
            c["reproduced"] = c["replay"].get("reproduced", False)
            a.candidates.append(c)


def replay_parameter_file_names(a):
    """-i with parameter files of unusual base names (leading dot, upper case, several dots, no stem) and every supported extension: the
    verdict equals that of the pre-merged document; a key clash is an error whatever the file is called; as a --data file the same names work"""
    import os, shutil, subprocess, tempfile
    exe = a.cli()
    if not exe:
        return {"reproduced": False, "note": "native build failed"}
    d = tempfile.mkdtemp(prefix="cfnverif_replay_")
    out, tried = [], 0
    try:
        open(os.path.join(d, "r.guard"), "w").write("rule r {\n  P.env == \"prod\"\n  D == 1\n}\n")
        open(os.path.join(d, "data.json"), "w").write('{"D": 1}\n')
        open(os.path.join(d, "merged.json"), "w").write('{"D": 1, "P": {"env": "prod"}}\n')
        ref = subprocess.run([exe, "validate", "-r", os.path.join(d, "r.guard"), "-d", os.path.join(d, "merged.json"), "--show-summary", "none"],
                             capture_output=True, text=True, timeout=60).returncode
        for stem in ("params", ".params", ".env", "a.b.c", "UPPER", "_p", "-p"):
            for ext, body, clash in ((".json", '{"P": {"env": "prod"}}\n', '{"D": 2}\n'), (".yaml", "P:\n  env: prod\n", "D: 2\n"),
                                     (".yml", "P:\n  env: prod\n", "D: 2\n"), (".jsn", '{"P": {"env": "prod"}}\n', '{"D": 2}\n')):
                sub = os.path.join(d, "i")
                shutil.rmtree(sub, ignore_errors=True)
                os.makedirs(sub)
                f = os.path.join(sub, stem + ext)
                for structured in (False, True):
                    extra = ["--structured", "-o", "json"] if structured else []
                    open(f, "w").write(body)
                    for how, iarg in (("file", f), ("directory", sub)):
                        pr = subprocess.run([exe, "validate", "-r", os.path.join(d, "r.guard"), "-d", os.path.join(d, "data.json"), "-i", iarg,
                                             "--show-summary", "none"] + extra, capture_output=True, text=True, timeout=60)
                        tried += 1
                        if pr.returncode != ref:
                            out.append({"parameter_file": stem + ext, "given_as": how, "structured": structured, "exit": pr.returncode,
                                        "exit_of_the_merged_document": ref})
                    open(f, "w").write(clash)
                    pr = subprocess.run([exe, "validate", "-r", os.path.join(d, "r.guard"), "-d", os.path.join(d, "data.json"), "-i", f,
                                         "--show-summary", "none"] + extra, capture_output=True, text=True, timeout=60)
                    tried += 1
                    if pr.returncode in (0, 19):
                        out.append({"parameter_file": stem + ext, "content": "defines a key the data defines too", "structured": structured,
                                    "exit": pr.returncode, "expected": "an error exit"})
        return {"reproduced": bool(out), "mismatches": out[:5], "runs": tried}
    finally:
        shutil.rmtree(d, ignore_errors=True)


def test_junit_counts(a):
    """C16 (`the json/yaml/junit renderings agree`): the JUnit rendering of a `test` run counts FAILED RULES - per test case the suite's
    failure counter grows by number_of_failures() = the length of that case's failed_rules (what json / yaml list), not by one per case -
    and the test cases appended are that case's own"""
    IMPL = r"(?:reporters::test::)?structured::<impl at guard/src/commands/reporters/test/structured\.rs:\d+:\d+: \d+:\d+>::"
    TC = struct_fields(a.src, "commands/reporters/test/structured.rs", "TestCase")
    nf = {}

    def m_nf(ex, av):
        k = str(av[0])
        if k not in nf:
            nf[k] = ex.fresh_int("usize", "nfail")
        return nf[k]
    ex = a.exec(IMPL + r"build_test_suite::\{closure#0\}", {"build_junit_test_cases": lambda ex, av: ex.opq(), "number_of_failures": m_nf,
                                                            "has_failures": lambda ex, av: ex.havoc("bool")},
                log=("append", "extend", "push", "number_of_failures", "has_failures"), unroll=1, max_paths=400, deepen=False)
    a.fns.append("commands::reporters::test::structured::TestResult::build_test_suite::{closure#0}")
    envv, acc, tc = ex.arg_env["_1"], ex.arg_env["_2"], ex.arg_env["_3"]
    bad, n = [], 0
    # captured: &mut failures, &mut time (order as in the closure type); find them as the two int-valued derefs stored on the path
    for p in ex.paths:
        if p.outcome == "panic":
            continue                      # counter overflow at usize::MAX / u128::MAX
        if p.outcome != "return":
            bad.append(pc_term(p.pc))
            continue
        nfs, bj = calls(p, "number_of_failures"), calls(p, "build_junit_test_cases")
        apps = [e for e in p.events if e[0] == "call" and e[1] in ("append", "extend")]
        stores = p.env.get("$stores") or {}
        n += 1
        ok = (len(nfs) == 1 and nfs[0][2][0] == tc and len(bj) == 1 and bj[0][2][0] == tc and not calls(p, "has_failures")
              and len(apps) == 1 and apps[0][2][0] == acc and same(p.ret, acc))
        # one of the captured counters grows by exactly number_of_failures()
        grows = []
        for (b, k), v in stores.items():
            old = ex.proj.get((b, k))
            if v[0] == "int" and old is not None and old[0] == "int":
                grows.append(f"(= {v[1]} (+ {old[1]} {nfs[0][3][1]}))" if nfs else "false")
        good = "(or false " + " ".join(grows) + ")" if ok else "false"
        bad.append(f"(and {pc_term(p.pc)} (not {good}))")
    c1 = a.discharge("test/junit/failures-count-failed-rules", ex, bad,
                     f"build_test_suite, one test case ({n} paths): the suite's failure counter grows by exactly number_of_failures() of THIS test case, "
                     "its JUnit test cases (build_junit_test_cases of this case) are appended to the accumulator, which is passed on")
    c2 = None
    try:
        ex2 = a.exec(IMPL + "number_of_failures", {"len": lambda ex, av: ("int", ex.len_of(av[0]))}, log=("len",), unroll=1, max_paths=50, deepen=False)
        me = ex2.arg_env["_1"]
        failed = field(ex2, me, TC.index("failed_rules"), "Vec")
        bad2 = []
        for p in ex2.paths:
            ls = calls(p, "len")
            ok = p.outcome == "return" and len(ls) == 1 and same(ls[0][2][0], failed) and p.ret == ls[0][3]
            bad2.append(f"(and {pc_term(p.pc)} (not {'true' if ok else 'false'}))")
        c2 = a.discharge("test/junit/number_of_failures", ex2, bad2, "number_of_failures() is the length of the test case's failed_rules", witness=False)
    except Untranslatable as e:
        a.ob.items.append({"obligation": "test/junit/number_of_failures", "describe": str(e), "verdicts": {}, "status": "inconclusive", "model": None})
    for c in (c1, c2):
        if c:
            c["replay"] = replay_test_renderings(a)
            c["reproduced"] = c["replay"].get("reproduced", False)
            a.candidates.append(c)


def test_junit_case_marks(a):
    """C16 (`the json / yaml / junit renderings of a test run agree`): build_junit_test_cases turns EVERY passed rule of a test case into a
    JUnit case marked Pass and EVERY failed rule (an unmet expectation, whatever was evaluated) into one marked Fail, each under the
    rule's own name - no rule is re-marked (e.g. as skipped) by looking at what was evaluated"""
    IMPL = r"(?:reporters::test::)?structured::<impl at guard/src/commands/reporters/test/structured\.rs:\d+:\d+: \d+:\d+>::"
    TC = struct_fields(a.src, "commands/reporters/test/structured.rs", "TestCase")
    ex = a.exec(IMPL + "build_junit_test_cases", {"next": mirexec.m_iter_next, "iter": mirexec.m_new_iter, "into_iter": mirexec.m_new_iter,
                                                  "fold": lambda ex, av: ex.opq(), "format": lambda ex, av: ex.opq(), "new": lambda ex, av: ex.opq(),
                                                  "box_assume_init_into_vec_unsafe": mirexec.m_vec_from_array},
                log=("push", "next"), unroll=1, max_paths=4000)
    a.fns.append("commands::reporters::test::structured::TestCase::build_junit_test_cases")
    a.note_cut("test/junit/case-marks", ex)
    me = ex.arg_env["_1"]
    want_mark = {f".{TC.index('passed_rules')}": "Pass", f".{TC.index('failed_rules')}": "Fail"}
    bad, n = [], 0
    for p in ex.paths:
        if p.outcome != "return":
            bad.append(pc_term(p.pc))
            continue
        evs = [e for e in p.events if e[0] == "call" and e[1] in ("next", "push")]
        terms, stray = [], False
        i = 0
        # pushes before the first next() would be cases that belong to no rule
        while i < len(evs) and evs[i][1] == "push":
            stray = True
            i += 1
        while i < len(evs):
            nx = evs[i]
            j = i + 1
            pushes = []
            while j < len(evs) and evs[j][1] == "push":
                pushes.append(evs[j])
                j += 1
            i = j
            if nx[3][0] != "enum":
                stray = True
                continue
            src = ex.iter_src.get(nx[2][0][1], nx[2][0]) if nx[2] and nx[2][0][0] == "opaque" else None
            o = origin(ex, src) if src is not None else None
            mark = want_mark.get(o[1][0]) if (o is not None and same(o[0], me) and len(o[1]) == 1) else None
            el = nx[3][3].get("Some")
            ok_some = False
            if mark is not None and len(pushes) == 1 and len(pushes[0][2]) == 2 and pushes[0][2][1][0] == "struct":
                st = pushes[0][2][1][2].get("status")
                nm = pushes[0][2][1][2].get("name")
                on = origin(ex, nm) if nm is not None else None
                oe = origin(ex, el) if el is not None else None
                ok_some = (st is not None and st[0] == "variant" and st[2] == mark and on is not None and oe is not None and same(on[0], oe[0])
                           and list(on[1]) == list(oe[1]) + [".0"])
            ok_none = not pushes
            n += 1
            terms.append(f"(ite (= {nx[3][2]} 1) {'true' if ok_some else 'false'} {'true' if ok_none else 'false'})")
        good = "false" if stray else "(and true " + " ".join(terms) + ")"
        bad.append(f"(and {pc_term(p.pc)} (not {good}))")
    c = a.discharge("test/junit/case-marks", ex, bad,
                    f"build_junit_test_cases ({n} rule visits over all paths, <= 1 passed and 1 failed rule per list): every rule of passed_rules becomes one JUnit case "
                    "marked Pass, every rule of failed_rules one marked Fail, under the rule's own name; nothing is pushed outside these visits")
    if c:
        c["replay"] = replay_test_renderings(a)
        c["reproduced"] = c["replay"].get("reproduced", False)
        a.candidates.append(c)


def replay_test_renderings(a):
    """one test file whose cases have 0, 1, 2 and 3 unmet expectations: plain, json, yaml and junit agree on the number of failed rules
    (junit: the failures attributes = the number of <failure> elements = the number json lists)"""
    import os, re as _re, shutil, subprocess, tempfile, json as _json
    exe = a.cli()
    if not exe:
        return {"reproduced": False, "note": "native build failed"}
    d = tempfile.mkdtemp(prefix="cfnverif_replay_")
    out = []
    env = dict(os.environ)
    env["RUST_BACKTRACE"] = "0"
    try:
        open(os.path.join(d, "r.guard"), "w").write("rule r1 { a == 1 }\nrule r2 { b == 1 }\nrule r3 { c == 1 }\n")
        for unmet in ([0], [1], [2], [3], [2, 1], [0, 3, 2]):
            text = ""
            for ci, k in enumerate(unmet):
                exp = ["PASS", "PASS", "PASS"]
                for j in range(k):
                    exp[j] = "FAIL"
                text += f"- name: c{ci}\n  input:\n    a: 1\n    b: 1\n    c: 1\n  expectations:\n    rules:\n" + "".join(f"      r{j + 1}: {e}\n" for j, e in enumerate(exp))
            open(os.path.join(d, "t.yaml"), "w").write(text)
            want = sum(unmet)
            run = lambda fmt: subprocess.run([exe, "test", "-r", os.path.join(d, "r.guard"), "-t", os.path.join(d, "t.yaml")] + (["-o", fmt] if fmt else []),
                                             capture_output=True, text=True, env=env, timeout=60)
            pj = run("json")
            try:
                rep = _json.loads(pj.stdout)
                rep = rep[0] if isinstance(rep, list) else rep
                nj = sum(len(t.get("failed_rules", [])) for t in rep.get("Ok", rep).get("test_cases", []))
            except Exception:
                nj = None
            px = run("junit")
            n_elem = len(_re.findall(r"<failure\b", px.stdout))
            attrs = [int(x) for x in _re.findall(r"<testsuites?\b[^>]*\bfailures=\"(\d+)\"", px.stdout)]
            if nj != want or n_elem != want or any(x != want for x in attrs) or not attrs:
                out.append({"unmet_expectations_per_case": unmet, "json_failed_rules": nj, "junit_failure_elements": n_elem, "junit_failures_attributes": attrs,
                            "expected": want})
            if (pj.returncode, px.returncode) != ((7, 7) if want else (0, 0)):
                out.append({"unmet_expectations_per_case": unmet, "exit_json": pj.returncode, "exit_junit": px.returncode})
        # unmet expectations on rules that evaluate to SKIP (a `when` guard that does not hold): they are failed rules like any other
        open(os.path.join(d, "r.guard"), "w").write("rule r1 { a == 1 }\nrule sk when a == 9 { a == 1 }\nrule sk2 when a == 9 { a == 1 }\n")
        for exps, want in (({"r1": "PASS", "sk": "PASS"}, 1), ({"r1": "PASS", "sk": "FAIL", "sk2": "PASS"}, 2), ({"r1": "PASS", "sk": "SKIP"}, 0), ({"r1": "FAIL", "sk": "PASS"}, 2)):
            open(os.path.join(d, "t.yaml"), "w").write("- name: c0\n  input:\n    a: 1\n  expectations:\n    rules:\n" + "".join(f"      {k}: {v}\n" for k, v in exps.items()))
            pj = run("json")
            try:
                rep = _json.loads(pj.stdout)
                rep = rep[0] if isinstance(rep, list) else rep
                nj = sum(len(t.get("failed_rules", [])) for t in rep.get("Ok", rep).get("test_cases", []))
            except Exception:
                nj = None
            px, pp = run("junit"), run(None)
            n_elem = len(_re.findall(r"<failure\b", px.stdout))
            attrs = [int(x) for x in _re.findall(r"<testsuites?\b[^>]*\bfailures=\"(\d+)\"", px.stdout)]
            if nj != want or n_elem != want or any(x != want for x in attrs) or not attrs:
                out.append({"expectations (sk, sk2 evaluate to SKIP)": exps, "json_failed_rules": nj, "junit_failure_elements": n_elem, "junit_failures_attributes": attrs,
                            "expected": want})
            if (pj.returncode, px.returncode, pp.returncode) != ((7, 7, 7) if want else (0, 0, 0)):
                out.append({"expectations (sk, sk2 evaluate to SKIP)": exps, "exit_json": pj.returncode, "exit_junit": px.returncode, "exit_plain": pp.returncode})
        return {"reproduced": bool(out), "mismatches": out[:4]}
    finally:
        shutil.rmtree(d, ignore_errors=True)


def sarif_one_result_per_message(a):
    """C07 (`SARIF is well-formed JSON with one result per reported failing check`): the fold that turns the messages of a failing check
    into SARIF results pushes exactly ONE result per message - whether or not the message carries a location (a missing location is
    anchored at (0, 0), not dropped) - onto the accumulator given and returns that accumulator"""
    ex = a.exec(r"(?:reporters::validate::)?sarif::<impl at guard/src/commands/reporters/validate/sarif\.rs:\d+:\d+: \d+:\d+>::from::\{closure#0\}",
                {"extract_rule_id": lambda ex, av: ex.opq(), "handle_messages": lambda ex, av: ex.opq(), "generate_sarif_locations": lambda ex, av: ex.opq(),
                 "new": lambda ex, av: ex.opq(), "from": lambda ex, av: ex.opq(), "deref_mut": mirexec.m_identity},
                log=("push", "generate_sarif_locations"), unroll=1, max_paths=400, first_arg_re=r"_1: &mut \{closure@[^}]*\}, _2: SarifResults", deepen=False)
    a.fns.append("commands::reporters::validate::sarif::<From<(&ClauseReport, &str)> for SarifResults>::from::{closure#0}")
    acc, msg = ex.arg_env["_2"], ex.arg_env["_3"]
    MS = struct_fields(a.src, "rules/eval_context.rs", "Messages")
    bad, n = [], 0
    for p in ex.paths:
        if p.outcome != "return":
            bad.append(pc_term(p.pc))
            continue
        n += 1
        pushes = [e for e in calls(p, "push") if len(e[2]) == 2]
        gl = calls(p, "generate_sarif_locations")
        ok = (len(pushes) == 1 and same(p.ret, acc) and pushes[0][2][1][0] == "struct" and len(gl) == 1
              and same(pushes[0][2][1][2].get("locations"), gl[0][3]))
        # with a location: its line / col; without: (0, 0)
        loc = field(ex, msg, MS.index("location"), "Option")
        some = payload(ex, loc, "Some")
        good = "false"
        if ok and len(gl[0][2]) == 3 and gl[0][2][1][0] == "int" and gl[0][2][2][0] == "int":
            ln = ex.proj.get((some[1], ".0")) if some is not None and some[0] == "opaque" else None
            co = ex.proj.get((some[1], ".1")) if some is not None and some[0] == "opaque" else None
            has = f"(= {disc(ex, loc)} 1)"
            with_loc = (f"(and (= {gl[0][2][1][1]} {ln[1]}) (= {gl[0][2][2][1]} {co[1]}))" if ln is not None and co is not None and ln[0] == "int" and co[0] == "int"
                        else "false")
            good = f"(ite {has} {with_loc} (and (= {gl[0][2][1][1]} 0) (= {gl[0][2][2][1]} 0)))"
        bad.append(f"(and {pc_term(p.pc)} (not {good}))")
    c = a.discharge("sarif/one-result-per-message", ex, bad,
                    f"SARIF, one message of a failing check ({n} returning paths): exactly one result is pushed onto the accumulator given, which is returned; "
                    "its location is the message's line / column when it has one and (0, 0) otherwise - a check without a location is not dropped")
    if c:
        c["replay"] = replay_sarif_results(a)
        c["reproduced"] = c["replay"].get("reproduced", False)
        a.candidates.append(c)


def replay_sarif_results(a):
    """--structured -o sarif vs -o json on rules with failing checks of every kind (comparison, exists, named-rule dependency, block on a missing
    property, empty on an unresolved variable): the SARIF file is JSON, has one result per failing check the JSON report lists, same exit code"""
    import json as _json
    exe = a.cli()
    if not exe:
        return {"reproduced": False, "note": "native build failed"}
    import os, shutil, subprocess, tempfile
    d = tempfile.mkdtemp(prefix="cfnverif_replay_")
    out = []
    try:
        open(os.path.join(d, "d.json"), "w").write('{"a": 1, "L": [1, 2]}\n')
        files = {"cmp": "rule r { a == 2 }\n", "dep": "rule base { a == 2 }\nrule dep {\n  base\n}\n", "block": "rule blk {\n  Tags { Owner exists }\n}\n",
                 "var": "let v = Missing.x\nrule ev { %v !empty }\n", "mixed": "rule base { a == 2 }\nrule m {\n  base\n  a == 3\n  Tags { Owner exists }\n  L[*] == 9\n}\n",
                 "ok": "rule fine { a == 1 }\n"}

        def leaves(o):
            n = 0
            if isinstance(o, dict):
                for k, v in o.items():
                    if k in ("Clause", "Block") :
                        n += 1
                    elif k == "Rule":
                        n += leaves(v.get("checks", [])) or 1
                    else:
                        n += leaves(v)
            elif isinstance(o, list):
                n += sum(leaves(x) for x in o)
            return n
        for k, t in files.items():
            open(os.path.join(d, "r.guard"), "w").write(t)
            run = lambda fmt: subprocess.run([exe, "validate", "-r", os.path.join(d, "r.guard"), "-d", os.path.join(d, "d.json"), "--structured", "-o", fmt,
                                              "--show-summary", "none"], capture_output=True, text=True, timeout=60)
            pj, ps = run("json"), run("sarif")
            try:
                rep = _json.loads(pj.stdout)
                sar = _json.loads(ps.stdout)
                nres = sum(len(r_.get("results", [])) for r_ in sar.get("runs", []))
                failing_rules = len([x for x in rep[0].get("not_compliant", []) if "Rule" in x])
            except Exception as e:
                out.append({"rules_file": t, "problem": f"output is not JSON: {e}"})
                continue
            if pj.returncode != ps.returncode:
                out.append({"rules_file": t, "exit_json": pj.returncode, "exit_sarif": ps.returncode})
            # at least one result per failing rule (a failing rule is never invisible in SARIF), none for a compliant file
            if (failing_rules == 0) != (nres == 0) or nres < failing_rules:
                out.append({"rules_file": t, "failing_rules_in_json": failing_rules, "sarif_results": nres})
            elif k in ("dep", "block", "var", "mixed"):
                want = leaves(rep[0].get("not_compliant", []))
                if nres < want:
                    out.append({"rules_file": t, "failing_checks_in_json": want, "sarif_results": nres})
        return {"reproduced": bool(out), "mismatches": out[:4]}
    finally:
        shutil.rmtree(d, ignore_errors=True)


def unary_record_message(a):
    """C09 (`every check listed under a non-compliant rule carries the clause's custom message`): record_unary_clause's per-value closure
    records, for EVERY value it visits, a check whose custom_message is the clause's own message as captured - the same for the first
    and for every later value (the closure does not consume or change what it captured)"""
    exp = a.exec(r"(?:(?:rules::)?eval::)?record_unary_clause::\{closure#0\}",
                 {"call": lambda ex, av: ex.fresh_result(ex.havoc("bool"), "op"), "start_record": mirexec.m_result_unit, "end_record": mirexec.m_result_unit,
                  "clone": mirexec.m_identity, RC_NEW: mirexec.m_identity},
                 log=("*",), unroll=1, max_paths=4000, deepen=False)
    a.fns.append("rules::eval::record_unary_clause::{closure#0} (message of the record)")
    env = exp.arg_env["_1"]
    bad, nrec, keys = [], 0, set()
    for p in exp.paths:
        ok = True
        consumed = [e[1] for e in p.events if e[0] == "call" and e[1] in ("take", "replace", "swap", "take_if", "insert", "get_or_insert_with")]
        stores = [k for k in (p.env.get("$stores") or {}) if isinstance(k, tuple) and k and k[0] == (env[1] if env[0] == "opaque" else None)]
        for e in calls(p, "end_record"):
            rec = e[2][2] if len(e[2]) > 2 else None
            if not (rec and rec[0] == "variant" and rec[2] == "ClauseValueCheck" and rec[3] and rec[3][0][0] == "variant" and rec[3][0][2] == "Unary"):
                continue
            nrec += 1
            uv = rec[3][0][3][0]
            vc = uv[2].get("value") if uv[0] == "struct" else None
            cm = vc[2].get("custom_message") if vc is not None and vc[0] == "struct" else None
            o = origin(exp, cm) if cm is not None and cm[0] == "opaque" else None
            if o is None or not same(o[0], env) or len(o[1]) != 1:
                ok = False
            else:
                keys.add(o[1][0])
        if consumed or stores:
            ok = False
        bad.append("false" if ok else pc_term(p.pc))
    if len(keys) > 1:
        bad.append("true")
    c = a.discharge("record_unary_clause/every-record-carries-the-clause-message", exp, bad,
                    f"record_unary_clause ({nrec} Unary records over all paths): the custom_message of every record - passing, failing, erroring - is the "
                    "message captured with the clause (one and the same capture), and the closure neither takes nor overwrites it between values")
    if c:
        c["replay"] = replay_unary_messages(a)
        c["reproduced"] = c["replay"].get("reproduced", False)
        a.candidates.append(c)


def replay_unary_messages(a):
    """unary clauses with a custom message over several values of which 2-3 fail: every failing check of the report carries the message"""
    exe = a.cli()
    if not exe:
        return {"reproduced": False, "note": "native build failed"}
    data = ('{"Resources": {"a": {"Properties": {"Name": 1, "Tags": []}}, "b": {"Properties": {"Name": 2, "Tags": []}}, "c": {"Properties": {"Name": "ok", "Tags": [1]}},\n'
            ' "d": {"Properties": {"Name": 3, "Tags": "x"}}}}\n')
    out = []
    for clause, nfail in (("Resources.*.Properties.Name is_string", 3), ("Resources.*.Properties.Tags !empty", 2), ("Resources.*.Properties.Tags is_list", 1),
                          ("Resources.*.Properties.Missing exists", 4), ("Resources.*.Properties.Name !is_int", 3)):
        msg = "names and tags must be right"
        rc, rep, err = a.run_structured(exe, f"rule r {{\n  {clause} <<{msg}>>\n}}\n", [data])
        if not (rep and isinstance(rep, list) and rep):
            out.append({"clause": clause, "problem": "no report", "exit": rc})
            continue
        found = []

        def walk(o, in_clause=False):
            if isinstance(o, dict):
                if in_clause and "custom_message" in o:
                    found.append(o["custom_message"])
                for k, v in o.items():
                    walk(v, in_clause or k == "Clause")
            elif isinstance(o, list):
                for v in o:
                    walk(v, in_clause)
        walk(rep[0].get("not_compliant", []))
        wrong = [m for m in found if (m or "").strip() != msg]
        if wrong or len(found) != nfail:
            out.append({"clause": clause, "failing_values": nfail, "checks_with_a_message_field": len(found), "messages_that_differ": wrong[:3]})
    real = [o for o in out if "problem" not in o]
    return {"reproduced": bool(real), "mismatches": out[:4]}


def report_builder_total_on_unary(a):
    """C08: a unary clause that FAILs on a literal variable (`let v = 5`, `%v is_string`) must give a verdict, not a crash. Every consumer
    of the records (the report builder, the console reporters) has `QueryResult::Literal(_) => unreachable!()` for the recorded value of a
    unary check. Decided as a producer / consumer pair:
    (P) record_unary_clause never records a Literal: for a Resolved / UnResolved query result the record's `from` is that value, for a Literal
        it is Resolved(the literal's value) - although literal variables DO reach it as QueryResult::Literal (resolve_variable/lookup);
    (C) the report builder does not panic on a Unary record whose value is Resolved or UnResolved"""
    RT = enum_variants(a.src, "rules/mod.rs", "RecordType")
    CC = enum_variants(a.src, "rules/mod.rs", "ClauseCheck")
    QR = enum_variants(a.src, "rules/mod.rs", "QueryResult")
    ER = struct_fields(a.src, "rules/eval_context.rs", "EventRecord")
    UVC = struct_fields(a.src, "rules/mod.rs", "UnaryValueCheck")
    VC = struct_fields(a.src, "rules/mod.rs", "ValueCheck")
    LIT, RES, UNR = QR.index("Literal"), QR.index("Resolved"), QR.index("UnResolved")
    # ---- (P)
    exp = a.exec(r"(?:(?:rules::)?eval::)?record_unary_clause::\{closure#0\}",
                 {"call": lambda ex, av: ex.fresh_result(ex.havoc("bool"), "op"), "start_record": mirexec.m_result_unit, "end_record": mirexec.m_result_unit,
                  "clone": mirexec.m_identity, RC_NEW: mirexec.m_identity},
                 unroll=1, max_paths=4000, deepen=False)
    a.fns.append("rules::eval::record_unary_clause::{closure#0}")
    val = exp.arg_env["_2"]
    dv = disc(exp, val)
    badp, nrec = [], 0
    for p in exp.paths:
        for e in calls(p, "end_record"):
            rec = e[2][2] if len(e[2]) > 2 else None
            if not (rec and rec[0] == "variant" and rec[2] == "ClauseValueCheck" and rec[3] and rec[3][0][0] == "variant" and rec[3][0][2] == "Unary"):
                continue
            nrec += 1
            uv = rec[3][0][3][0]
            vc = uv[2].get("value") if uv[0] == "struct" else None
            frm = vc[2].get("from") if vc is not None and vc[0] == "struct" else None
            if frm is None:
                badp.append(pc_term(p.pc))
                continue
            if frm == val:                       # recorded as it came: then it must not be a Literal
                good = f"(not (= {dv} {LIT}))"
            elif frm[0] == "variant" and frm[2] == "Resolved" and frm[3] == [exp.proj.get((val[1], "as Literal.0"))]:
                good = f"(= {dv} {LIT})"
            else:
                good = "false"
            badp.append(f"(and {pc_term(p.pc)} (not {good}))")
    cp = a.discharge("record_unary_clause/never-records-a-literal", exp, badp,
                     f"record_unary_clause ({nrec} Unary records over all paths, kind of the value visited symbolic): the recorded value is the value visited when that "
                     "is Resolved / UnResolved, and Resolved(v) when it is Literal(v) - the reports' `Literal(_) => unreachable!()` arms are never reached")
    # ---- (C)
    ex = a.exec(r"(?:(?:rules::)?eval_context::)?report_all_failed_clauses_for_rules",
                {"next": mirexec.m_iter_next, "into_iter": mirexec.m_new_iter, "iter": mirexec.m_new_iter,
                 "report_all_failed_clauses_for_rules": lambda ex, av: ex.opq(), "default": lambda ex, av: ex.opq()},
                log=("push", "extend"), unroll=1, max_paths=60000, deepen=False)
    a.fns.append("rules::eval_context::report_all_failed_clauses_for_rules (totality on unary records)")
    bad = []
    for p in ex.paths:
        if p.outcome != "panic":
            continue
        its = iterations(ex, p, it_filter=lambda ev: ex.iter_src.get(ev[2][0][1], ev[2][0]) == ex.arg_env["_1"])
        for k, el, tag, _i in its[-1:]:
            cont = field(ex, el, ER.index("container"), "Option")
            some = payload(ex, cont, "Some")
            cl = payload(ex, some, "ClauseValueCheck")
            un = payload(ex, cl, "Unary")
            frm = field(ex, field(ex, un, UVC.index("value"), "ValueCheck"), VC.index("from"), "QueryResult")
            is_unary = (f"(and (= {tag} 1) (= {disc(ex, cont)} 1) (= {disc(ex, some)} {RT.index('ClauseValueCheck')}) (= {disc(ex, cl)} {CC.index('Unary')}) "
                        f"(or (= {disc(ex, frm)} {RES}) (= {disc(ex, frm)} {UNR})))")
            bad.append(f"(and {pc_term(p.pc)} {is_unary})")
    cc = a.discharge("report_all_failed_clauses_for_rules/no-panic-on-unary-records", ex, bad or ["false"],
                     "report builder, one record: no path that processes a Unary value record whose recorded value is Resolved or UnResolved ends in a "
                     "panic / unreachable!()")
    for c in (cp, cc):
        if c:
            c["replay"] = replay_unary_on_literal_variable(a)
            c["reproduced"] = c["replay"].get("reproduced", False)
            a.candidates.append(c)


def replay_unary_on_literal_variable(a):
    """unary clauses that FAIL on a literal variable (the recorded value is a Literal): a verdict, never a crash"""
    exe = a.cli()
    if not exe:
        return {"reproduced": False, "note": "native build failed"}
    data = '{"a": 1}\n'
    prefix = "let n = 5\nlet s = \"x\"\nlet l = [1, 2]\nlet m = {\"k\": 1}\n"
    cases = [("%n is_string", "FAIL"), ("%s is_int", "FAIL"), ("%l is_struct", "FAIL"), ("%m is_list", "FAIL"), ("%n !exists", "FAIL"), ("%s is_list", "FAIL"),
             ("%n is_int", "PASS"), ("%s is_string", "PASS"), ("%n exists", "PASS"), ("not %n is_int", "FAIL"), ("%l is_list", "PASS"), ("%s !is_string", "FAIL")]
    out = a.replay_cases(exe, data, cases, prefix=prefix)
    # the console reporter walks the same report
    import os, shutil, subprocess, tempfile
    d = tempfile.mkdtemp(prefix="cfnverif_replay_")
    try:
        open(os.path.join(d, "r.guard"), "w").write(prefix + "rule t {\n  %n is_string\n}\n")
        open(os.path.join(d, "d.json"), "w").write(data)
        pr = subprocess.run([exe, "validate", "-r", os.path.join(d, "r.guard"), "-d", os.path.join(d, "d.json")], capture_output=True, text=True, timeout=60)
        if pr.returncode != 19:
            out["mismatches"].append({"cmd": "validate (console)", "clause": "%n is_string", "expected_exit": 19, "observed_exit": pr.returncode,
                                      "stderr": pr.stderr[-200:]})
            out["reproduced"] = True
    finally:
        shutil.rmtree(d, ignore_errors=True)
    return out


def test_data_per_spec(a):
    """C16 (`test` structured vs plain vs validate): every test spec of a test file becomes exactly one test case - get_test_data folds over
    ALL specs (std try_fold over the vector given) and its step pushes one TestData built from THIS spec (its name, its input converted by
    PathAwareValue::try_from, its expectations - also an empty set of expectations) or fails when the input cannot be converted; no spec is
    skipped"""
    TS = struct_fields(a.src, "commands/test.rs", "TestSpec")
    ex = a.exec(r"(?:reporters::test::structured::)?get_test_data::\{closure#0\}",
                {"try_from": m_result_opq, RC_NEW: mirexec.m_identity, "unwrap_or_default": lambda ex, av: ex.opq(), "is_empty": lambda ex, av: ex.havoc("bool"),
                 "len": lambda ex, av: ("int", ex.len_of(av[0])), "branch": mirexec.m_try_branch, "from_residual": mirexec.m_from_residual},
                log=("push", "is_empty", "len"), unroll=1, max_paths=400, deepen=False)
    a.fns.append("commands::reporters::test::structured::get_test_data::{closure#0}")
    acc, spec = ex.arg_env["_2"], ex.arg_env["_3"]
    inp, exp, nm = (ex.proj.get((spec[1], f".{TS.index(k)}")) if spec[0] == "opaque" else None for k in ("input", "expectations", "name"))
    bad, n = [], 0
    for p in ex.paths:
        r = p.ret
        if p.outcome != "return" or not r or r[0] != "enum" or r[1] != "Result":
            bad.append(pc_term(p.pc))
            continue
        n += 1
        tf = calls(p, "try_from")
        pushes = [e for e in calls(p, "push") if len(e[2]) == 2]
        if len(tf) != 1 or (inp is not None and tf[0][2][0] != inp):
            bad.append(pc_term(p.pc))              # the input of THIS spec is converted exactly once on every path: nothing is skipped
            continue
        ttag = tf[0][3][2]
        if pushes:
            td = pushes[0][2][1]
            ok = (len(pushes) == 1 and pushes[0][2][0] == acc and td[0] == "struct" and td[2].get("path_value") == tf[0][3][3]["Ok"]
                  and (exp is None or td[2].get("expectations") == exp) and r[3].get("Ok") == acc)
            good = f"(and (= {ttag} 0) (= {r[2]} 0))" if ok else "false"
        else:
            good = f"(and (= {ttag} 1) (= {r[2]} 1))"
        bad.append(f"(and {pc_term(p.pc)} (not {good}))")
    c1 = a.discharge("test/get_test_data/one-case-per-spec", ex, bad,
                     f"get_test_data, one test spec ({n} paths): its input is converted exactly once; when that succeeds exactly one TestData holding that value and "
                     "this spec's expectations (whatever they are) is appended and the accumulator passed on; when it fails the fold fails")
    top = mirsmt.find_fn(a.mir, r"(?:reporters::test::structured::)?get_test_data")
    shape = bool(re.search(r"as IntoIterator>::into_iter\((?:move|copy) _1\)", top)) and bool(re.search(r"as Iterator>::try_fold::<", top)) \
        and not re.search(r"::(filter|filter_map|skip|skip_while|take|take_while|step_by|rev)::<|::(filter|skip|take|rev)\(", top)
    a.ob.check("test/get_test_data/fold-over-all-specs", [], [], "false" if shape else "true",
               "get_test_data: std try_fold over into_iter() of the vector of specs given, no filtering / skipping adaptor in between (degenerate solver part: "
               "a fact read off the MIR of the function)")
    item = a.ob.items[-1]
    item["paths"], item["cut_by_unroll_bound"], item["unroll"] = 1, 0, 0
    for c in (c1, item if item["status"] == "refuted" else None):
        if c:
            c["replay"] = replay_test_specs_without_expectations(a)
            c["reproduced"] = c["replay"].get("reproduced", False)
            a.candidates.append(c)


def replay_test_specs_without_expectations(a):
    """test files with specs that state no expectation / some / all: every output format reports the same test cases (names, order) and the
    rules without an expectation as skipped"""
    import os, shutil, subprocess, tempfile, json as _json
    exe = a.cli()
    if not exe:
        return {"reproduced": False, "note": "native build failed"}
    d = tempfile.mkdtemp(prefix="cfnverif_replay_")
    out = []
    env = dict(os.environ)
    env["RUST_BACKTRACE"] = "0"
    try:
        open(os.path.join(d, "r.guard"), "w").write("rule r1 { a == 1 }\nrule r2 { b == 1 }\n")
        text = ("- name: none\n  input:\n    a: 1\n    b: 1\n  expectations:\n    rules: {}\n"
                "- name: some\n  input:\n    a: 1\n    b: 1\n  expectations:\n    rules:\n      r1: PASS\n"
                "- name: all\n  input:\n    a: 1\n    b: 2\n  expectations:\n    rules:\n      r1: PASS\n      r2: FAIL\n")
        open(os.path.join(d, "t.yaml"), "w").write(text)
        pj = subprocess.run([exe, "test", "-r", os.path.join(d, "r.guard"), "-t", os.path.join(d, "t.yaml"), "-o", "json"], capture_output=True, text=True, env=env, timeout=60)
        pp = subprocess.run([exe, "test", "-r", os.path.join(d, "r.guard"), "-t", os.path.join(d, "t.yaml")], capture_output=True, text=True, env=env, timeout=60)
        try:
            rep = _json.loads(pj.stdout)
            rep = rep[0] if isinstance(rep, list) else rep
            tcs = rep.get("Ok", rep).get("test_cases", [])
            names = [t.get("name") for t in tcs]
            skipped = {t.get("name"): sorted(x.get("name") for x in t.get("skipped_rules", [])) for t in tcs}
        except Exception as e:
            return {"reproduced": True, "mismatches": [{"problem": f"json output not readable: {e}", "stdout": pj.stdout[:300]}]}
        if names != ["none", "some", "all"]:
            out.append({"format": "json", "test_cases_reported": names, "expected": ["none", "some", "all"]})
        elif skipped.get("none") != ["r1", "r2"] or skipped.get("some") != ["r2"]:
            out.append({"format": "json", "skipped_rules": skipped, "expected": {"none": ["r1", "r2"], "some": ["r2"], "all": []}})
        n_plain = len(re.findall(r"^Test Case #", pp.stdout, re.M))
        if n_plain != 3 or pj.returncode != pp.returncode:
            out.append({"plain_test_cases": n_plain, "exit_plain": pp.returncode, "exit_json": pj.returncode})
        return {"reproduced": bool(out), "mismatches": out}
    finally:
        shutil.rmtree(d, ignore_errors=True)


def walk_dir_unfiltered(a):
    """C17 / C12: which files a directory (or a path given directly) yields. walk_dir is walkdir's own traversal of the base given, ordered by
    the comparison given, with unreadable entries dropped (flatten over Result) and NOTHING else filtered here - what counts as a file is
    decided by its callers with Path::is_file(), which follows symbolic links"""
    ex = a.exec(r"(?:commands::files::)?walk_dir", {"new": lambda ex, av: ("struct", "WalkDir", {"base": av[0] if av else ex.opq()}),
                                                    "sort_by": lambda ex, av: ("struct", "Sorted", {"of": av[0], "cmp": av[1] if len(av) > 1 else ex.opq()}),
                                                    "into_iter": lambda ex, av: ("struct", "It", {"of": av[0]}),
                                                    "flatten": lambda ex, av: ("struct", "Flat", {"of": av[0]})},
                log=("filter", "filter_map", "filter_entry", "skip", "take", "follow_links", "max_depth", "min_depth", "map", "rev", "skip_while", "take_while"),
                unroll=1, max_paths=50, deepen=False)
    a.fns.append("commands::files::walk_dir")
    bad = []
    for p in ex.paths:
        extra = [e for e in p.events if e[0] == "call" and e[1] in ("filter", "filter_map", "filter_entry", "skip", "take", "follow_links", "max_depth", "min_depth",
                                                                      "map", "rev", "skip_while", "take_while")]
        r = p.ret
        ok = (p.outcome == "return" and not extra and r == ("struct", "Flat", {"of": ("struct", "It", {"of": ("struct", "Sorted", {
            "of": ("struct", "WalkDir", {"base": ex.arg_env["_1"]}), "cmp": ex.arg_env["_2"]})})}))
        bad.append(f"(and {pc_term(p.pc)} (not {'true' if ok else 'false'}))")
    c = a.discharge("files/walk_dir/unfiltered-walk", ex, bad,
                    "walk_dir: flatten(into_iter(sort_by(WalkDir::new(<the base given>), <the comparison given>))) and nothing else - no filter on the entry "
                    "type (symbolic links are followed by the callers' Path::is_file()), no depth limit, no skipping")
    if c:
        c["replay"] = replay_symlinked_inputs(a)
        c["reproduced"] = c["replay"].get("reproduced", False)
        a.candidates.append(c)


def replay_symlinked_inputs(a):
    """data, parameter and rules files reached through symbolic links (in a directory / given directly) give the verdict of the files they
    point to; a key clash in a linked parameter file is still an error"""
    import os, shutil, subprocess, tempfile
    exe = a.cli()
    if not exe:
        return {"reproduced": False, "note": "native build failed"}
    d = tempfile.mkdtemp(prefix="cfnverif_replay_")
    out = []
    try:
        os.makedirs(os.path.join(d, "real"))
        os.makedirs(os.path.join(d, "pdir"))
        os.makedirs(os.path.join(d, "ddir"))
        os.makedirs(os.path.join(d, "rdir"))
        open(os.path.join(d, "real", "p.json"), "w").write('{"P": {"env": "prod"}}\n')
        open(os.path.join(d, "real", "clash.json"), "w").write('{"D": 2}\n')
        open(os.path.join(d, "real", "data.json"), "w").write('{"D": 1}\n')
        open(os.path.join(d, "real", "r.guard"), "w").write("rule r {\n  P.env == \"prod\"\n  D == 1\n}\n")
        open(os.path.join(d, "real", "merged.json"), "w").write('{"D": 1, "P": {"env": "prod"}}\n')
        os.symlink(os.path.join(d, "real", "p.json"), os.path.join(d, "pdir", "linked.json"))
        os.symlink(os.path.join(d, "real", "p.json"), os.path.join(d, "plink.json"))
        os.symlink(os.path.join(d, "real", "clash.json"), os.path.join(d, "clashlink.json"))
        os.symlink(os.path.join(d, "real", "data.json"), os.path.join(d, "ddir", "d.json"))
        os.symlink(os.path.join(d, "real", "r.guard"), os.path.join(d, "rdir", "r.guard"))
        R, D, M = os.path.join(d, "real", "r.guard"), os.path.join(d, "real", "data.json"), os.path.join(d, "real", "merged.json")
        run = lambda args: subprocess.run([exe, "validate", "--show-summary", "none"] + args, capture_output=True, text=True, timeout=60).returncode
        ref = run(["-r", R, "-d", M])
        for label, args, want in (("parameter file linked inside a directory", ["-r", R, "-d", D, "-i", os.path.join(d, "pdir")], ref),
                                  ("parameter file given as a link", ["-r", R, "-d", D, "-i", os.path.join(d, "plink.json")], ref),
                                  ("data file linked inside a directory", ["-r", R, "-d", os.path.join(d, "ddir"), "-i", os.path.join(d, "real", "p.json")], ref),
                                  ("rules file linked inside a directory", ["-r", os.path.join(d, "rdir"), "-d", M], ref)):
            rc = run(args)
            if rc != want:
                out.append({"case": label, "exit": rc, "exit_with_the_real_files": want})
        rc = run(["-r", R, "-d", D, "-i", os.path.join(d, "clashlink.json")])
        if rc in (0, 19):
            out.append({"case": "linked parameter file defines a key the data defines too", "exit": rc, "expected": "an error exit"})
        return {"reproduced": bool(out), "mismatches": out}
    finally:
        shutil.rmtree(d, ignore_errors=True)


def scope_delegations(a):
    """the one-line scope methods: a scope that has no state of its own for a question hands it, unchanged, to the scope / recorder that
    has - and touches nothing else (in particular no memo table is written from a record passing through)"""
    RS = struct_fields(a.src, "rules/eval_context.rs", "RootScope")
    BS = struct_fields(a.src, "rules/eval_context.rs", "BlockScope")
    VS = struct_fields(a.src, "rules/eval_context.rs", "ValueScope")
    table = [("RootScope", RS, "recorder", m) for m in ("start_record", "end_record")]
    table += [("ValueScope", VS, "parent", m) for m in ("start_record", "end_record", "find_parameterized_rule", "rule_status", "resolve_variable",
                                                        "add_variable_capture_key")]
    table += [("BlockScope", BS, "parent", m) for m in ("start_record", "end_record", "find_parameterized_rule", "rule_status")]
    MUT = ("insert", "push", "remove", "clear", "entry", "extend", "get_mut", "or_insert", "or_default", "retain", "pop", "truncate")
    n = 0
    for ty, fields, target, meth in table:
        ex = a.exec(SCOPE_IMPL + meth, {meth: m_result_opq}, log=MUT, first_arg_re=r"_1: &mut (?:eval_context::)?" + ty + "<",
                    unroll=1, max_paths=400, deepen=False)
        me = ex.arg_env["_1"]
        others = [ex.arg_env[k] for k in sorted(ex.arg_env, key=lambda x: int(x[1:])) if k != "_1"]
        bad = []
        for p in ex.paths:
            cs = calls(p, meth)
            muts = [e for e in p.events if e[0] == "call" and e[1] in MUT]
            stores = {k: v for k, v in (p.env.get("$stores") or {}).items()}
            if p.outcome != "return" or len(cs) != 1:
                bad.append(pc_term(p.pc))
                continue
            c = cs[0]
            tgt = ex.proj.get((me[1], f".{fields.index(target)}"))
            ok = (tgt is not None and c[2][0] == tgt and list(c[2][1:]) == others and p.ret == c[3] and not muts and not stores)
            bad.append(f"(and {pc_term(p.pc)} (not {'true' if ok else 'false'}))")
            n += 1
        c = a.discharge(f"{ty}::{meth}/delegates", ex, bad,
                        f"{ty}::{meth}: exactly one call, of `{target}.{meth}` with the arguments given, in order; its result is returned; no field "
                        "of the scope is written and no collection is modified on the way (a record passing through does not feed a memo table)",
                        witness=False)
        if c:
            c["replay"] = replay_multi_definition_reference(a)
            c["reproduced"] = c["replay"].get("reproduced", False)
            a.candidates.append(c)
    a.fns.append("rules::eval_context::{RootScope, BlockScope, ValueScope}: delegating RecordTracer / EvalContext methods")


def root_scope_rule_table(a):
    """root_scope(): the name -> definitions table that rule_status consults holds EVERY definition of every rule"""
    RF = struct_fields(a.src, "rules/exprs.rs", "RulesFile")
    RU = struct_fields(a.src, "rules/exprs.rs", "Rule")
    PR = struct_fields(a.src, "rules/exprs.rs", "ParameterizedRule")
    ex = a.exec(r"(?:(?:rules::)?eval_context::)?root_scope", {"extract_variables": lambda ex, av: ex.opq(), "next": mirexec.m_iter_next,
                                                                "into_iter": mirexec.m_new_iter, "iter": mirexec.m_new_iter,
                                                                "with_capacity": lambda ex, av: ex.opq(), "as_str": mirexec.m_identity,
                                                                "entry": lambda ex, av: ex.opq(), "or_insert": lambda ex, av: ex.opq(),
                                                                "or_insert_with": lambda ex, av: ex.opq(), "or_default": lambda ex, av: ex.opq(),
                                                                "root_scope_with": lambda ex, av: ex.opq(), "len": lambda ex, av: ("int", ex.len_of(av[0]))},
                log=("push", "insert", "entry", "or_insert", "or_insert_with", "or_default", "root_scope_with", "with_capacity"),
                unroll=2, max_paths=20000, first_arg_re=r"_1: &(?:exprs::)?RulesFile")
    a.fns.append("rules::eval_context::root_scope")
    rf = ex.arg_env["_1"]
    rules = field(ex, rf, RF.index("guard_rules"), "Vec")
    prules = field(ex, rf, RF.index("parameterized_rules"), "Vec")
    bad, nrule = [], 0
    for p in ex.paths:
        if p.outcome != "return":
            bad.append(pc_term(p.pc))
            continue
        evs = [e for e in p.events if e[0] == "call"]
        caches = [e for e in evs if e[1] == "with_capacity"]
        its = iterations(ex, p, it_filter=lambda ev: ex.iter_src.get(ev[2][0][1], ev[2][0]) == rules)
        bnds = [i for _k, _e, _t, i in its] + [len(p.events)]
        probs = []
        table = caches[0][3] if caches else None
        for n, (k, el, tag, i0) in enumerate(its):
            if f"(= {tag} 1)" not in p.pc or el is None:
                continue
            nrule += 1
            seg = [e for i, e in enumerate(p.events) if bnds[n] <= i < bnds[n + 1] and e[0] == "call"]
            ent = [e for e in seg if e[1] == "entry"]
            oi = [e for e in seg if e[1] in ("or_insert", "or_default")]
            pu = [e for e in seg if e[1] == "push" and len(e[2]) == 2]
            name = field(ex, el, RU.index("rule_name"), "String")
            ok = (len(ent) == 1 and table is not None and same(ent[0][2][0], table) and same(ent[0][2][1], name) and len(oi) == 1 and same(oi[0][2][0], ent[0][3])
                  and len(pu) == 1 and same(pu[0][2][0], oi[0][3]) and same(pu[0][2][1], el))
            if not ok:
                probs.append("a rule definition is not APPENDED to the list kept under its own name")
        rsw = [e for e in evs if e[1] == "root_scope_with"]
        if not (len(rsw) == 1 and table is not None and any(same(x, table) for x in rsw[0][2]) and p.ret == rsw[0][3]):
            probs.append("the table built is not the one handed to the scope")
        # parameterised rules: stored under their own name
        its2 = iterations(ex, p, it_filter=lambda ev: ex.iter_src.get(ev[2][0][1], ev[2][0]) == prules)
        bnds2 = [i for _k, _e, _t, i in its2] + [len(p.events)]
        for n, (k, el, tag, i0) in enumerate(its2):
            if f"(= {tag} 1)" not in p.pc or el is None:
                continue
            seg = [e for i, e in enumerate(p.events) if bnds2[n] <= i < bnds2[n + 1] and e[0] == "call" and e[1] == "insert"]
            rule = field(ex, el, PR.index("rule"), "Rule")
            nm = field(ex, rule, RU.index("rule_name"), "String")
            if not (len(seg) == 1 and len(seg[0][2]) == 3 and same(seg[0][2][1], nm) and same(seg[0][2][2], el)):
                probs.append("a parameterised rule is not stored under its own name")
        bad.append(pc_term(p.pc) if probs else "false")
    c = a.discharge("root_scope/every-definition-in-the-table", ex, bad,
                    f"root_scope, <= 2 rules ({nrule} rule visits): every rule definition is appended to the list kept under ITS OWN name (a name "
                    "defined twice keeps both definitions, in file order), that table is the one handed to the scope, and every parameterised "
                    "rule is stored under its own name", witness=False)
    if c:
        c["replay"] = replay_named_rules(a)
        if not c["replay"].get("reproduced"):
            c["replay"] = replay_multi_definition_reference(a)
        c["reproduced"] = c["replay"].get("reproduced", False)
        a.candidates.append(c)


def replay_multi_definition_reference(a):
    """a rule name defined twice with exclusive guards, referenced by another rule, in every order of the three rules"""
    import itertools
    exe = a.cli()
    if not exe:
        return {"reproduced": False, "note": "native build failed"}
    parts = {"d1": "rule tls when env == \"dev\" {\n  port == 80\n}\n", "d2": "rule tls when env == \"prod\" {\n  port == 443\n}\n",
             "ref": "rule service_ok {\n  tls\n}\n"}
    data = '{"env":\n "prod", "port": 443}\n'
    out, tried = [], []
    for order in itertools.permutations(parts):
        rules = "".join(parts[k] for k in order)
        rc, rep, err = a.run_structured(exe, rules, [data])
        if not (rep and isinstance(rep, list) and rep):
            tried.append({"order": order, "problem": "no report"})
            continue
        ok = "service_ok" in rep[0].get("compliant", []) and rc == 0
        tried.append({"order": order, "ok": ok})
        if not ok:
            out.append({"order": list(order), "rules_file": rules, "expected": "service_ok PASS (the applicable definition of tls passes)", "exit": rc,
                        "compliant": rep[0].get("compliant"), "not_compliant": [x["Rule"]["name"] for x in rep[0].get("not_compliant", []) if "Rule" in x]})
    return {"reproduced": bool(out), "mismatches": out[:3], "data": data, "tried": tried}



def sarif_per_file_results(a):
    """C12 / C07 (`what is reported for one data file does not depend on the other files of the run`): SarifRun::from folds over the
    failing file reports; per failing check of a report the step is exactly `runs.extend_results(SarifResults::from((failure,
    report.name)))` - the results built for THIS check under THIS file's name are appended as they are; the step calls nothing else
    (no filter / retain / de-duplication against what other files produced) and captures only the report and the accumulator."""
    hdr = r"(?:reporters::validate::)?sarif::<impl at guard/src/commands/reporters/validate/sarif\.rs:\d+:\d+: \d+:\d+>::from::\{closure#1\}::\{closure#0\}"
    ex = a.exec(hdr, {"from": lambda ex, av: ex.opq(), "extend_results": lambda ex, av: ("unit",)}, log=("*",), unroll=1, max_paths=200,
                first_arg_re=r"_1: &mut \{closure@[^}]*\}, _2: &ClauseReport", deepen=False)
    a.fns.append("commands::reporters::validate::sarif::<From<&[FileReport]> for SarifRun>::from::{closure#1}::{closure#0}")
    text = mirsmt.find_fn(a.mir, hdr, r"_1: &mut \{closure@[^}]*\}, _2: &ClauseReport")
    captures = set(re.findall(r"\(\(\*_1\)\.(\d+):", text))
    env, failure = ex.arg_env["_1"], ex.arg_env["_2"]
    FR = struct_fields(a.src, "rules/eval_context.rs", "FileReport")
    bad, n = [], 0
    for p in ex.paths:
        if p.outcome != "return":
            bad.append(pc_term(p.pc))
            continue
        n += 1
        evs = [e for e in p.events if e[0] == "call"]
        fr = [e for e in evs if e[1] == "from"]
        er = [e for e in evs if e[1] == "extend_results"]
        other = [e[1] for e in evs if e[1] not in ("from", "extend_results")]
        ok = len(fr) == 1 and len(er) == 1 and not other and captures == {"0", "1"}
        if ok:
            tup = fr[0][2][0]
            ok = tup[0] == "tuple" and len(tup[1]) == 2 and same(tup[1][0], failure)
            if ok:
                o = origin(ex, tup[1][1])
                # the name is field `name` of the captured report: env.0 -> deref -> deref -> .name
                ok = o is not None and same(o[0], env) and list(o[1]) == [".0", f".{FR.index('name')}"]
            ok = ok and len(er[0][2]) == 2 and same(er[0][2][1], fr[0][3])
            if ok:
                o2 = origin(ex, er[0][2][0])
                ok = o2 is not None and same(o2[0], env) and list(o2[1]) == [".1"]
        bad.append("false" if ok else pc_term(p.pc))
    c = a.discharge("sarif/per-file-step/results-appended-as-built", ex, bad,
                    f"SARIF, one failing check of one data file ({n} returning paths): one SarifResults::from((that check, that report's name)), its "
                    "result handed unchanged to extend_results of the captured accumulator, no other call, nothing captured but the report and "
                    "the accumulator - what a file contributes does not depend on the files before it")
    if c:
        c["replay"] = replay_sarif_across_files(a)
        c["reproduced"] = c["replay"].get("reproduced", False)
        a.candidates.append(c)


def replay_sarif_across_files(a):
    """--structured -o sarif over several data files, some of them copies of one another: per data file (artifact uri) the number of results
    is the number that file gets when validated alone, in every order of the -d arguments"""
    import json as _json, os, shutil, subprocess, tempfile, collections
    exe = a.cli()
    if not exe:
        return {"reproduced": False, "note": "native build failed"}
    d = tempfile.mkdtemp(prefix="cfnverif_replay_")
    out = []
    try:
        open(os.path.join(d, "r.guard"), "w").write("rule one { a == 1 <<a must be one>> }\nrule two { L[*] == 1 }\n")
        docs = {"dev.json": '{"a": 2, "L": [1, 2]}\n', "prod.json": '{"a": 2, "L": [1, 2]}\n', "other.json": '{"a": 3, "L": [1]}\n', "good.json": '{"a": 1, "L": [1]}\n'}
        for k, t in docs.items():
            open(os.path.join(d, k), "w").write(t)

        def run(names):
            cmd = [exe, "validate", "-r", os.path.join(d, "r.guard"), "--structured", "-o", "sarif", "--show-summary", "none"]
            for n_ in names:
                cmd += ["-d", os.path.join(d, n_)]
            pr = subprocess.run(cmd, capture_output=True, text=True, timeout=60)
            try:
                sar = _json.loads(pr.stdout)
            except Exception:
                return pr.returncode, None
            cnt = collections.Counter()
            for r_ in sar.get("runs", []):
                for res in r_.get("results", []):
                    for loc in res.get("locations", []):
                        cnt[os.path.basename(loc.get("physicalLocation", {}).get("artifactLocation", {}).get("uri", ""))] += 1
            return pr.returncode, cnt
        alone = {}
        for k in docs:
            rc, cnt = run([k])
            if cnt is None:
                return {"reproduced": False, "note": "singleton run gave no SARIF document", "exit": rc}
            alone[k] = cnt.get(k, 0)
        for order in (["dev.json", "prod.json"], ["prod.json", "dev.json"], ["other.json", "dev.json", "good.json", "prod.json"], ["good.json", "prod.json", "other.json"]):
            rc, cnt = run(order)
            if cnt is None:
                out.append({"order": order, "problem": "no SARIF document", "exit": rc})
                continue
            for k in order:
                if cnt.get(k, 0) != alone[k]:
                    out.append({"order": order, "data_file": k, "results_alone": alone[k], "results_in_this_run": cnt.get(k, 0)})
        return {"reproduced": bool(out), "mismatches": out[:4]}
    finally:
        shutil.rmtree(d, ignore_errors=True)


def rules_files_all_evaluated(a):
    """C12 / C07 (`every (rules file, data file) pair given is evaluated and reported, whatever the other pairs are`): validate collects the
    --rules files into a list and (a) Validate::execute only ever creates that list and pushes onto it - it never removes, de-duplicates,
    truncates or re-keys entries - and (b) the --structured path's get_rule_info fold pushes EVERY file it read onto its accumulator
    (one unconditional push of that very file, nothing else consulted) or returns the read error."""
    # (a) site enumeration over the Vec<PathBuf> methods used by Validate::execute
    try:
        top = mirsmt.find_fn(a.mir, r"(?:commands::validate::)?<impl at guard/src/commands/validate\.rs:\d+:\d+: \d+:\d+>::execute", r"_1: &(?:commands::validate::)?Validate")
    except Untranslatable:
        top = None
    if top is None:
        a.ob.items.append({"obligation": "Validate::execute/rules-list-only-grows", "describe": "Validate::execute not found", "verdicts": {}, "status": "inconclusive", "model": None})
    else:
        used = sorted(set(re.findall(r"= (?:std::vec::)?Vec::<(?:std::path::)?PathBuf>::(\w+)", top) + re.findall(r"(?:core::)?slice::<impl \[(?:std::path::)?PathBuf\]>::(\w+)", top)))
        extra = [u for u in used if u not in ("new", "push", "with_capacity", "iter", "len", "is_empty", "as_slice")]
        a.ob.check("Validate::execute/rules-list-only-grows", [], [], "true" if extra else "false",
                   f"Validate::execute: the lists of --rules / --data paths are only created and pushed onto (Vec<PathBuf> methods used: {used}); none of "
                   f"dedup / retain / truncate / remove / drain / sort+dedup is applied to them - found: {extra} (site enumeration; degenerate solver part)")
        item = a.ob.items[-1]
        item["paths"], item["cut_by_unroll_bound"], item["unroll"] = max(1, len(used)), 0, 0
        if not used:
            item["status"] = "inconclusive"
        if item["status"] == "refuted":
            item["replay"] = replay_same_basename_rules(a)
            item["reproduced"] = item["replay"].get("reproduced", False)
            a.candidates.append(item)
    a.fns.append("commands::validate::Validate::execute (rules list) + get_rule_info::{closure#1}")
    # (b) the fold step of get_rule_info
    def m_branch(ex, av):
        # `?` on the (opaque) Result argument: Continue(its Ok payload) exactly when it is Ok
        v = av[0] if av else None
        if v is not None and v[0] == "opaque":
            return ("enum", "ControlFlow", disc(ex, v), {"Continue": payload(ex, v, "Ok"), "Break": ("enum", "Result", "1", {"Err": payload(ex, v, "Err")})})
        return mirexec.COMMON_MODELS["branch"](ex, av)
    ex = a.exec(r"(?:commands::validate::)?get_rule_info::\{closure#1\}", {"write_err": mirexec.m_result_unit, "format": lambda ex, av: ex.opq(), "must_use": mirexec.m_identity, "branch": m_branch},
                log=("*",), unroll=1, max_paths=400, deepen=False)
    acc, item_ = ex.arg_env["_2"], ex.arg_env["_3"]
    tag = disc(ex, item_)
    bad, n = [], 0
    for p in ex.paths:
        r = p.ret
        if p.outcome != "return" or not r or r[0] != "enum":
            bad.append(pc_term(p.pc))
            continue
        n += 1
        pushes = calls(p, "push")
        other = [e[1] for e in p.events if e[0] == "call" and e[1] in ("any", "all", "contains", "iter", "position", "find", "eq", "ne", "retain", "dedup", "dedup_by_key", "binary_search")]
        okpush = (len(pushes) == 1 and same(pushes[0][2][0], acc) and same(pushes[0][2][1], payload(ex, item_, "Ok")) and not other
                  and r[3].get("Ok") is not None and same(r[3]["Ok"], acc))
        good = f"(ite (= {tag} 0) (and (= {r[2]} 0) {'true' if okpush else 'false'}) (and (= {r[2]} 1) {'true' if not pushes else 'false'}))"
        bad.append(f"(and {pc_term(p.pc)} (not {good}))")
    c = a.discharge("get_rule_info/every-file-read-is-kept", ex, bad,
                    f"get_rule_info, one rules file ({n} paths): a file that was read is pushed - unconditionally, as it is - onto the accumulator, which is "
                    "returned; a read error is returned as an error; no comparison with the files already collected")
    if c:
        c["replay"] = replay_same_basename_rules(a)
        c["reproduced"] = c["replay"].get("reproduced", False)
        a.candidates.append(c)


def replay_same_basename_rules(a):
    """rules files with the same base name in different directories (team_a/bucket.guard, team_b/bucket.guard), given as files, in several
    orders, and through their common directory; console and every structured format: exit code 19 (one of them FAILs) and both files'
    rules reported"""
    import os, shutil, subprocess, tempfile, json as _json
    exe = a.cli()
    if not exe:
        return {"reproduced": False, "note": "native build failed"}
    d = tempfile.mkdtemp(prefix="cfnverif_replay_")
    out = []
    try:
        for sub, text in (("team_a", "rule a_ok { a == 1 }\n"), ("team_b", "rule b_bad { a == 2 }\n"), ("other", "rule z_ok { a == 1 }\n")):
            os.makedirs(os.path.join(d, "rules", sub))
            open(os.path.join(d, "rules", sub, "bucket.guard" if sub != "other" else "zzz.guard"), "w").write(text)
        open(os.path.join(d, "d.json"), "w").write('{"a": 1}\n')
        A, B, Z = (os.path.join(d, "rules", x) for x in ("team_a/bucket.guard", "team_b/bucket.guard", "other/zzz.guard"))
        for label, rules in (("a b", [A, B]), ("b a", [B, A]), ("z a b", [Z, A, B]), ("a z b", [A, Z, B]), ("directory", [os.path.join(d, "rules")])):
            base = [exe, "validate", "-d", os.path.join(d, "d.json")]
            for r_ in rules:
                base += ["-r", r_]
            pc = subprocess.run(base + ["--show-summary", "all"], capture_output=True, text=True, timeout=60)
            if pc.returncode != 19 or "b_bad" not in pc.stdout or "a_ok" not in pc.stdout:
                out.append({"rules": label, "mode": "console", "exit": pc.returncode, "b_bad_reported": "b_bad" in pc.stdout, "a_ok_reported": "a_ok" in pc.stdout})
            for fmt in ("json", "yaml", "junit", "sarif"):
                ps = subprocess.run(base + ["--structured", "-o", fmt, "--show-summary", "none"], capture_output=True, text=True, timeout=60)
                seen = ("b_bad" in ps.stdout or "B_BAD" in ps.stdout) if fmt != "sarif" else ('"ruleId"' in ps.stdout)
                if ps.returncode != 19 or not seen:
                    out.append({"rules": label, "mode": "--structured -o " + fmt, "exit": ps.returncode, "failing_rule_reported": seen})
        return {"reproduced": bool(out), "mismatches": out[:5]}
    finally:
        shutil.rmtree(d, ignore_errors=True)


def junit_escaping_sites(a):
    """C07 (`the structured JUnit output lets the same marks be read as the JSON output`): a JUnit document can only be read if it is
    well-formed XML, i.e. if every name / message / path written into it went through quick-xml's escaping. quick-xml escapes an
    attribute given as `(&str, &str)` and a text built by BytesText::new; `(&[u8], &[u8])`, `Attribute { .. }`, BytesText::from_escaped
    and BytesStart::from_content are written verbatim. Enumerated from the MIR of the current tree: every instantiation of
    push_attribute / extend_attributes and every text / element constructor of quick-xml called by the crate. Site enumeration
    (degenerate solver part) + native replay (paths, messages and test names containing & < > quotes must give parseable XML with
    the same marks as -o json)."""
    attr = re.findall(r"= BytesStart::<'_>::(push_attribute|extend_attributes|with_attributes)::<'_, ([^\n]*?)>\(", a.mir)
    raw_attr = [(k, t) for k, t in attr if not re.fullmatch(r"\(&str, &str\)|\[\(&str, &str\); \d+\]", t.strip())]
    ctors = re.findall(r"= (BytesText::<'_>::\w+|BytesStart::<'_>::\w+|BytesEnd::<'_>::\w+|BytesCData::<'_>::\w+|BytesDecl::<'_>::\w+)(?:::<[^\n]*?>)?\(", a.mir)
    okc = {"BytesText::<'_>::new", "BytesStart::<'_>::new", "BytesEnd::<'_>::new", "BytesDecl::<'_>::new", "BytesStart::<'_>::push_attribute",
           "BytesStart::<'_>::extend_attributes"}
    raw_ctor = sorted(set(c for c in ctors if c not in okc))
    n = len(attr) + len(ctors)
    bad = "true" if (raw_attr or raw_ctor) else "false"
    a.ob.check("junit/every-text-written-through-the-escaping-constructors", [], [], bad,
               f"({n} quick-xml sites) every attribute is handed to quick-xml as (&str, &str) [{len(attr)} instantiations] and every text node / "
               f"element is built by an escaping constructor [{len(ctors)} calls]; verbatim forms found: {raw_attr + raw_ctor} "
               "(site enumeration over the MIR; degenerate solver part)")
    item = a.ob.items[-1]
    item["paths"], item["cut_by_unroll_bound"], item["unroll"] = max(1, n), 0, 0
    if n == 0:
        item["status"] = "inconclusive"
    a.fns.append("every quick-xml constructor / attribute call of commands::reporters (JUnit writer)")
    if item["status"] == "refuted":
        item["replay"] = replay_junit_wellformed(a)
        item["reproduced"] = item["replay"].get("reproduced", False)
        a.candidates.append(item)


def replay_junit_wellformed(a):
    """data files whose PATH, rules whose MESSAGES and test specs whose NAMES contain & < > ' ": the JUnit document must parse as XML and
    carry the same marks (suite name = the file, the failing rules named by the <failure> elements) as the JSON output; for `test` the same number of failing cases"""
    import os, shutil, subprocess, tempfile, json as _json
    import xml.etree.ElementTree as ET
    exe = a.cli()
    if not exe:
        return {"reproduced": False, "note": "native build failed"}
    d = tempfile.mkdtemp(prefix="cfnverif_replay_")
    out = []
    try:
        sub = os.path.join(d, "R&D <x> 'q'")
        os.makedirs(sub)
        rules = os.path.join(d, "r.guard")
        open(rules, "w").write('rule one {\n  a == 1 <<a & b < c > d "quoted" \'single\'>>\n}\nrule two { b == 1 }\n')
        for nm, txt in (("service.json", '{"a": 2, "b": 1, "k": "x & y <z>"}\n'), ("ok&fine.json", '{"a": 1, "b": 1}\n')):
            open(os.path.join(sub, nm), "w").write(txt)
        for files in (["service.json"], ["ok&fine.json"], ["service.json", "ok&fine.json"]):
            cmd = [exe, "validate", "-r", rules, "--structured", "--show-summary", "none"]
            for f in files:
                cmd += ["-d", os.path.join(sub, f)]
            pj = subprocess.run(cmd + ["-o", "json"], capture_output=True, text=True, timeout=60)
            px = subprocess.run(cmd + ["-o", "junit"], capture_output=True, text=True, timeout=60)
            try:
                rep = _json.loads(pj.stdout)
            except Exception:
                out.append({"files": files, "problem": "-o json gave no report", "exit": pj.returncode})
                continue
            try:
                root = ET.fromstring(px.stdout)
            except ET.ParseError as e:
                out.append({"files": files, "problem": f"-o junit is not well-formed XML: {e}", "exit_junit": px.returncode, "exit_json": pj.returncode})
                continue
            suites = {os.path.basename(ts.get("name", "")): ts for ts in root.iter("testsuite")}
            for r in rep:
                nm = os.path.basename(r["name"])
                ts = suites.get(nm)
                if ts is None:
                    out.append({"files": files, "problem": f"no <testsuite> named after {nm!r}; names: {sorted(suites)}"})
                    continue
                failing_json = sorted(x["Rule"]["name"].split("/")[-1] for x in r.get("not_compliant", []) if "Rule" in x)
                failing_xml = sorted(set(fl.get("message", "").split("/")[-1] for tc in ts.iter("testcase") for fl in tc.iter("failure")))
                failing_json = sorted(set(failing_json))
                if failing_json != failing_xml:
                    out.append({"files": files, "data_file": nm, "failing rules (json)": failing_json, "rules named by <failure message=..> (junit)": failing_xml})
            if px.returncode != pj.returncode:
                out.append({"files": files, "problem": f"exit {px.returncode} (junit) vs {pj.returncode} (json)"})
        # `test -o junit`
        spec = os.path.join(sub, "t.yaml")
        open(spec, "w").write('- name: "case <1> & \'2\'"\n  input: {"a": 2, "b": 1}\n  expectations:\n    rules:\n      one: PASS\n      two: PASS\n'
                              '- name: plain\n  input: {"a": 1, "b": 1}\n  expectations:\n    rules:\n      one: PASS\n      two: PASS\n')
        pj = subprocess.run([exe, "test", "-r", rules, "-t", spec, "-o", "json"], capture_output=True, text=True, timeout=60)
        px = subprocess.run([exe, "test", "-r", rules, "-t", spec, "-o", "junit"], capture_output=True, text=True, timeout=60)
        try:
            root = ET.fromstring(px.stdout)
            nfail = sum(1 for tc in root.iter("testcase") if tc.find("failure") is not None)
            if px.returncode != pj.returncode:
                out.append({"command": "test", "problem": f"exit {px.returncode} (junit) vs {pj.returncode} (json)"})
            if (nfail > 0) != (pj.returncode == 7):
                out.append({"command": "test", "problem": f"{nfail} failing cases in the JUnit document, exit code {pj.returncode}"})
        except ET.ParseError as e:
            out.append({"command": "test", "problem": f"test -o junit is not well-formed XML: {e}", "exit_junit": px.returncode})
        return {"reproduced": bool(out), "mismatches": out[:4]}
    finally:
        shutil.rmtree(d, ignore_errors=True)


SITES = {
    "C06": [command_dispatch, structured_report, structured_parse_closure, junit_exit_code, junit_test_case, junit_report, validate_execute_step, test_generic_report, test_result_exit_code, test_exit_code_domain, test_structured_evaluate],
    "C12": [rules_files_all_evaluated, sarif_per_file_results, structured_report, junit_test_case, junit_report, data_input_wiring, data_input_params_wiring, structured_merge_closure, test_get_by_result, test_structured_evaluate, report_combine_union],
    "C07": [command_dispatch, validate_builder_passes_fields, validate_params_reach_every_evaluation, flags_verdict_wiring, reporter_chain, library_entry_wiring, sarif_one_result_per_message, sarif_per_file_results, rules_files_all_evaluated, junit_escaping_sites, report_combine_union, structured_report, junit_test_case, junit_report, validate_execute_step,
            data_input_params_wiring, structured_merge_closure],
    "C16": [test_generic_report, test_get_by_result, test_get_by_rules, test_structured_evaluate, test_result_exit_code, test_junit_counts, test_junit_case_marks, test_data_per_spec],
    "C02": [param_ctx_end_record, scope_delegations, param_rule_call, rule_status_semantics],
    "C09": [unary_record_message, report_partition, report_rule_listing, report_clause_content, report_combine_union, unary_empty_on_expr, param_ctx_end_record],
    "C10": [report_clause_content],
    "C15": [scope_resolution, scope_discipline, scope_delegations, variable_tables, param_rule_call, param_literal_kind, param_ctx_resolve],
    "C03": [param_rule_call],
    "C04": [rule_status_semantics, root_scope_rule_table, scope_delegations, scope_resolution],
    "C01": [rule_status_semantics, root_scope_rule_table, scope_discipline, scope_resolution, scope_delegations, variable_tables, param_rule_call, param_ctx_resolve],
    "C17": [validate_builder_passes_fields, validate_params_reach_every_evaluation, merge_map, merge_list, merge_unwrap, param_files_fold_step, data_input_params_wiring, structured_merge_closure, supported_extension_predicate, walk_dir_unfiltered],
    "C08": [merge_unwrap, rulegen_unwrap, test_exit_code_domain, report_builder_total_on_unary],
}
