"""Bounded symbolic execution of one MIR function body with call models and per-path event logs.

Used for the aggregation sites that Kani/CBMC cannot reach (they build scopes / do I/O): every call is either
MODELLED (its result is a fresh symbolic value of a known shape, e.g. `eval_rule` returns a symbolic
`Result<Status, Error>`) or HAVOCED; loops are unrolled `unroll` times (each basic block may be entered at most
unroll+1 times on a path; longer paths are cut and counted); every path records the modelled calls it made
(callee, argument values, result value). Properties are stated per path over those symbolic values and discharged
by z3 and cvc5 (mirsmt.Obligations). Integers are mathematical Ints with explicit range side conditions.

Value forms:
  ("int", term) ("bool", term) ("opaque",)
  ("enum", type, tag_term, {variant: payload_value})       tag-indexed enums: Status, Result, Option, ControlFlow
  ("variant", type, variant_name, [payload values])        enums used only as constructed data (RecordType ...)
  ("struct", type, {field: value})
"""
import re
from mirsmt import Untranslatable, INT_RANGES, int_lit, parse_fn, find_fn, pc_term

TAGS = {"Result": {"Ok": 0, "Err": 1}, "Option": {"None": 0, "Some": 1}, "ControlFlow": {"Continue": 0, "Break": 1}}


class Path:
    __slots__ = ("pc", "events", "outcome", "ret", "env")

    def __init__(self, pc, events, outcome, ret, env):
        self.pc, self.events, self.outcome, self.ret, self.env = pc, events, outcome, ret, env


class Exec:
    def __init__(self, fn_text, enums, consts, call_models, log_calls, unroll=2, max_paths=4000, mir=""):
        self.mir = mir
        self.header, self.locs, self.blocks = parse_fn(fn_text)
        self.enums = enums                  # {"Status": ["PASS","FAIL","SKIP"]}
        self.consts = consts
        self.call_models = call_models      # {callee_suffix: fn(exec, argvalues) -> value}
        self.log_calls = log_calls          # set of callee suffixes whose calls are logged even if havoced
        self.unroll = unroll
        self.max_paths = max_paths
        self.decls, self.side, self.n = [], [], 0
        self.paths, self.cut = [], 0
        self.created = {}           # opaque id -> number of logged events on the path at the time it was created
        self.iter_src = {}          # iterator-instance opaque id -> the collection value it walks
        self.proj = {}              # (base opaque id, projection text) -> opaque id: the same field read twice is the same value
        self.lens = {}              # opaque id -> SMT Int term of its length (Vec / slice / str)
        self.debug_names = {}
        for m in re.finditer(r"debug (\w+) => (_\d+);", fn_text):
            self.debug_names.setdefault(m.group(1), m.group(2))

    # ---- symbols ----
    def fresh(self, sort, hint):
        self.n += 1
        name = f"|{hint}!{self.n}|"
        self.decls.append(f"(declare-const {name} {sort})")
        return name

    def fresh_int(self, ty, hint="h"):
        v = self.fresh("Int", hint)
        if ty in INT_RANGES:
            lo, hi = INT_RANGES[ty]
            self.side.append(f"(and (<= {int_lit(lo)} {v}) (<= {v} {int_lit(hi)}))")
        return ("int", v)

    def fresh_enum(self, ty, nvariants, hint, payload=None):
        t = self.fresh("Int", hint)
        self.side.append(f"(and (<= 0 {t}) (< {t} {nvariants}))")
        return ("enum", ty, t, payload or {})

    def fresh_status(self, hint="st"):
        return self.fresh_enum("Status", 3, hint)

    def fresh_result(self, ok_payload, hint="res"):
        return self.fresh_enum("Result", 2, hint, {"Ok": ok_payload, "Err": ("int", self.fresh("Int", "err"))})

    def proj_of(self, base, key):
        if base[0] != "opaque":
            return self.opq()
        k = (base[1], key)
        if k not in self.proj:
            self.proj[k] = self.opq()
        return self.proj[k]

    def len_of(self, v):
        if v[0] != "opaque":
            v = self.opq()
        if v[1] not in self.lens:
            t = self.fresh("Int", "len")
            self.side.append(f"(>= {t} 0)")
            self.lens[v[1]] = t
        return self.lens[v[1]]

    def opq(self):
        """fresh opaque value WITH an identity (so that 'the same value' can be recognised along a path)"""
        self.n += 1
        self.created[self.n] = len(getattr(self, "cur_events", ()) or ())     # how many events the path had when it appeared
        return ("opaque", self.n)

    def havoc(self, ty):
        ty = (ty or "").strip()
        ty = re.sub(r"^(?:&(?:'\w+ )?(?:mut )?)+", "", ty)      # references are transparent
        if ty in INT_RANGES:
            return self.fresh_int(ty)
        if ty == "bool":
            return ("bool", self.fresh("Bool", "hb"))
        if ty.endswith("Status") or ty == "rules::Status":
            return self.fresh_status()
        return self.opq()

    # ---- evaluation ----
    def operand(self, env, op):
        op = op.strip()
        if op.startswith("no_retag "):
            op = op[len("no_retag "):]
        m = re.match(r"^(?:copy|move) (.*)$", op)
        if m:
            return self.place(env, m.group(1))
        m = re.match(r"^const (-?\d+)_([iu](?:8|16|32|64|size))$", op)
        if m:
            return ("int", int_lit(int(m.group(1))))
        m = re.match(r"^const (true|false)$", op)
        if m:
            return ("bool", m.group(1))
        m = re.match(r"^const '(.|\\.|\\u\{[0-9a-f]+\})'$", op)
        if m:
            return ("char", m.group(1))
        m = re.match(r'^const b"(.*)"$', op, re.S)
        if m:
            return ("bytes", m.group(1))           # byte-string constant (e.g. the packed template of format_args!), kept as written
        m = re.match(r'^const "(.*)"$', op, re.S)
        if m:
            return ("str", m.group(1))
        m = re.match(r"^const (?:core::num::<impl )?([iu](?:8|16|32|64|size))>?::(MIN|MAX)$", op)
        if m:
            lo, hi = INT_RANGES[m.group(1)]
            return ("int", int_lit(lo if m.group(2) == "MIN" else hi))
        m = re.match(r"^const (.*)::promoted\[(\d+)\]$", op)
        if m:
            # promoted constant, e.g. `&Status::PASS`: its tiny body is in the same dump
            fn = strip_trailing_generics(m.group(1)).split("::")[-1]
            own = self.header[3: self.header.index("(")]
            pm = re.search(r"^const " + re.escape(own) + r"::promoted\[" + m.group(2) + r"\]: [^\n]* = \{\n(.*?)\n\}\n",
                           self.mir, re.M | re.S)
            if not pm:
                pm = re.search(r"^const (?:[\w:<>]+::)?" + re.escape(fn) + r"::promoted\[" + m.group(2) + r"\]: [^\n]* = \{\n(.*?)\n\}\n",
                               self.mir, re.M | re.S)
            if pm:
                am = re.search(r"_1 = ([\w:]+)::(\w+);", pm.group(1))
                if am:
                    v = self.clike(am.group(1), am.group(2))
                    if v:
                        return v
                return self.promoted_value(pm.group(1))
            return self.opq()
        m = re.match(r"^const (?:[\w:<>]+::)?(\w+)$", op)
        if m and m.group(1) in self.consts:
            return ("int", int_lit(self.consts[m.group(1)]))
        m = re.match(r"^const ([\w:]+)::(\w+)$", op)
        if m:
            v = self.clike(m.group(1), m.group(2))
            if v:
                return v
        if op.startswith("&"):
            return self.place(env, re.sub(r"^&(?:mut |raw (?:const|mut) )?", "", op))
        m = re.match(r"^(?:const )?((?:[A-Za-z_]\w*::)*[a-z_]\w*)(?:::<.*>)?$", op)
        if m and not re.match(r"^_\d+$", m.group(1)):
            return ("fn", m.group(1).split("::")[-1])            # a function item used as a value (comparator, callback)
        return self.opq()

    def promoted_value(self, body):
        """straight-line promoted constant (`&Struct { f: fnptr }`, `&UnitStruct`): evaluate its statements"""
        env = {}
        for ln in body.splitlines():
            st = ln.strip().rstrip(";")
            m = re.match(r"^(_\d+) = (.*)$", st)
            if m and "->" not in m.group(2).split("(PointerCoercion")[0][-4:]:
                try:
                    env[m.group(1)] = self.rvalue(env, m.group(1), m.group(2))
                except Exception:
                    env[m.group(1)] = self.opq()
        return env.get("_0", self.opq())

    def clike(self, ty, variant):
        for k, vs in self.enums.items():
            if ty.endswith(k) and variant in vs:
                return ("enum", k, str(vs.index(variant)), {})
        return None

    def place(self, env, place):
        """balanced-parenthesis parser for MIR places: _N | (*P) | (P.i: T) | ((P as V).i: T) | P[..]"""
        place = place.strip()
        if re.match(r"^_\d+$", place):
            if place in env:
                return env[place]
            v = self.havoc(self.locs.get(place))
            env[place] = v              # the same unassigned local read twice on a path is the same value
            return v
        m = re.match(r"^(.*)\[(_\d+)\]$", place, re.S)
        if m and (m.group(1).startswith("(") and match_paren(m.group(1), 0) == len(m.group(1)) - 1 or re.match(r"^_\d+$", m.group(1))):
            base = self.place(env, m.group(1))              # P[_i]: element of a slice / array
            iv = env.get(m.group(2))
            if base[0] == "opaque" and iv and iv[0] == "int":
                return self.proj_of(base, f"[{iv[1]}]")
            return self.opq()
        if place.startswith("(") and match_paren(place, 0) == len(place) - 1:
            inner = place[1:-1].strip()
            if inner.startswith("*"):
                return self.place(env, inner[1:])               # references are transparent
            if inner.startswith("("):
                j = match_paren(inner, 0)
                base_txt, rest = inner[: j + 1], inner[j + 1:]
            else:
                m = re.match(r"^(_\d+)(.*)$", inner, re.S)
                if not m:
                    return self.opq()
                base_txt, rest = m.group(1), m.group(2)
            m = re.match(r"^\.(\d+): (.*)$", rest, re.S)
            if not m:
                return self.opq()
            idx, fty = int(m.group(1)), m.group(2)
            dm = re.match(r"^\((.+) as (\w+)\)$", base_txt, re.S)
            if dm and match_paren(base_txt, 0) == len(base_txt) - 1:
                base = self.place(env, dm.group(1))
                variant = dm.group(2)
                if base[0] == "enum" and variant in base[3]:
                    return base[3][variant]
                if base[0] == "variant":
                    if base[2] == variant and idx < len(base[3]):
                        return base[3][idx]
                    return self.opq()
                return self.proj_of(base, f"as {variant}.{idx}")
            base = self.place(env, base_txt)
            if base[0] == "tuple":
                return base[1][idx] if idx < len(base[1]) else self.opq()
            if base[0] == "struct":
                vals = list(base[2].values())
                return vals[idx] if idx < len(vals) else self.opq()
            if base[0] == "opaque":
                k = (base[1], f".{idx}")
                st = env.get("$stores")
                if st and k in st:
                    return st[k]
                if k not in self.proj:
                    self.proj[k] = self.havoc(fty)
                return self.proj[k]
            return self.havoc(fty)
        return self.opq()

    def place_key(self, env, txt):
        """overlay key (opaque base id, ".i") of a field place `(P.i: T)` whose base is an opaque value, else None"""
        txt = txt.strip()
        if not (txt.startswith("(") and match_paren(txt, 0) == len(txt) - 1):
            return None
        inner = txt[1:-1].strip()
        if inner.startswith("*"):
            return None
        if inner.startswith("("):
            j = match_paren(inner, 0)
            base_txt, rest = inner[: j + 1], inner[j + 1:]
        else:
            m = re.match(r"^(_\d+)(.*)$", inner, re.S)
            if not m:
                return None
            base_txt, rest = m.group(1), m.group(2)
        m = re.match(r"^\.(\d+): (.*)$", rest, re.S)
        if not m or re.match(r"^\((.+) as (\w+)\)$", base_txt, re.S):
            return None
        base = self.place(env, base_txt)
        return (base[1], f".{int(m.group(1))}") if base[0] == "opaque" else None

    def store(self, env, lhs, val):
        """`(P.i: T) = v` through an opaque struct / reference: remembered in a per-path overlay"""
        lhs = lhs.strip()
        if not (lhs.startswith("(") and match_paren(lhs, 0) == len(lhs) - 1):
            return
        inner = lhs[1:-1].strip()
        if inner.startswith("*"):
            # `(*_r) = v` where _r was loaded from a field holding a reference (closure captures `&mut x`)
            tgt = (env.get("$alias") or {}).get(inner[1:].strip())
            if tgt:
                st = dict(env.get("$stores") or {})
                st[tgt] = val
                env["$stores"] = st
            return
        if inner.startswith("("):
            j = match_paren(inner, 0)
            base_txt, rest = inner[: j + 1], inner[j + 1:]
        else:
            m = re.match(r"^(_\d+)(.*)$", inner, re.S)
            if not m:
                return
            base_txt, rest = m.group(1), m.group(2)
        m = re.match(r"^\.(\d+): (.*)$", rest, re.S)
        if not m or re.match(r"^\((.+) as (\w+)\)$", base_txt, re.S):
            return
        base = self.place(env, base_txt)
        if base[0] == "opaque":
            st = dict(env.get("$stores") or {})
            st[(base[1], f".{int(m.group(1))}")] = val
            env["$stores"] = st
        elif base[0] == "struct" and re.match(r"^_\d+$", base_txt):
            keys = list(base[2].keys())
            i = int(m.group(1))
            if i < len(keys):
                f2 = dict(base[2])
                f2[keys[i]] = val
                env[base_txt] = ("struct", base[1], f2)

    def rvalue(self, env, dst, rv):
        rv = rv.strip()
        m = re.match(r"^(Eq|Ne|Lt|Le|Gt|Ge)\((.*), (.*)\)$", rv)
        if m:
            a, b = self.operand(env, m.group(2)), self.operand(env, m.group(3))
            if a[0] == "enum" and b[0] == "enum":
                a, b = ("int", a[2]), ("int", b[2])
            if a[0] == b[0] and a[0] in ("int", "bool"):
                op = {"Eq": "=", "Lt": "<", "Le": "<=", "Gt": ">", "Ge": ">="}.get(m.group(1))
                if m.group(1) == "Ne":
                    return ("bool", f"(not (= {a[1]} {b[1]}))")
                if a[0] == "bool" and op != "=":
                    return self.havoc("bool")
                return ("bool", f"({op} {a[1]} {b[1]})")
            return self.havoc("bool")
        m = re.match(r"^(Add|Sub|Mul)WithOverflow\((.*), (.*)\)$", rv)
        if m:
            a, b = self.operand(env, m.group(2)), self.operand(env, m.group(3))
            tm = re.match(r"^\((\w+), bool\)$", self.locs.get(dst, ""))
            if a[0] == "int" and b[0] == "int" and tm and tm.group(1) in INT_RANGES:
                lo, hi = INT_RANGES[tm.group(1)]
                ex = f"({ {'Add': '+', 'Sub': '-', 'Mul': '*'}[m.group(1)] } {a[1]} {b[1]})"
                return ("tuple", [("int", ex), ("bool", f"(or (< {ex} {int_lit(lo)}) (> {ex} {int_lit(hi)}))")])
            return ("tuple", [self.havoc(tm.group(1) if tm else None), self.havoc("bool")])
        m = re.match(r"^Not\((.*)\)$", rv)
        if m:
            a = self.operand(env, m.group(1))
            return ("bool", f"(not {a[1]})") if a[0] == "bool" else self.havoc("bool")
        m = re.match(r"^deref_copy (.*)$", rv)
        if m:
            return self.place(env, m.group(1))
        m = re.match(r"^\{closure@[^}]*\} \{ (.*) \}$", rv)
        if m:
            fields = {}
            for part in split_top(m.group(1)):
                k, _, v = part.partition(":")
                fields[k.strip()] = self.operand(env, v)
            return ("struct", "closure", fields)
        m = re.match(r"^(?:PtrMetadata|Len)\((.*)\)$", rv)
        if m:
            v = self.operand(env, m.group(1)) if m.group(1).startswith(("copy", "move")) else self.place(env, m.group(1))
            return ("int", self.len_of(v))
        m = re.match(r"^discriminant\((.*)\)$", rv)
        if m:
            v = self.place(env, m.group(1))
            if v[0] == "enum":
                return ("int", v[2])
            if v[0] == "variant" and v[1] in self.enums and v[2] in self.enums[v[1]]:
                return ("int", str(self.enums[v[1]].index(v[2])))          # a value built on this path: its variant is known
            if v[0] == "opaque":
                k = ("disc", v[1])
                if k not in self.proj:
                    self.proj[k] = self.fresh("Int", "disc")
                return ("int", self.proj[k])
            return ("int", self.fresh("Int", "disc"))
        m = re.match(r"^\((.*),\)$", rv) or re.match(r"^\((.*, .*)\)$", rv)
        if m and not rv.startswith("(*") and ":" not in rv.split(",")[0]:
            return ("tuple", [self.operand(env, x) for x in split_top(m.group(1))])
        # std Result / Option constructors
        m = re.match(r"^std::(?:result::Result|option::Option)::<.*>::(Ok|Err|Some)\((.*)\)$", rv)
        if m:
            ty = "Option" if m.group(1) == "Some" else "Result"
            return ("enum", ty, str(TAGS[ty][m.group(1)]), {m.group(1): self.operand(env, m.group(2))})
        m = re.match(r"^std::option::Option::<.*>::None$", rv)
        if m:
            return ("enum", "Option", "0", {})
        # array aggregate  [op, op, ..]  (also what `vec![..]` writes into its box): kept as a value and remembered per path
        if rv.startswith("[") and rv.endswith("]") and "; " not in rv:
            v = ("array", [self.operand(env, x) for x in split_top(rv[1:-1])] if rv[1:-1].strip() else [])
            env["$last_array"] = v
            return v
        # struct aggregate  Type::<..> { f: op, ... }
        m = re.match(r"^([\w:]+?)(?:::<[^{]*>)? \{ (.*) \}$", rv)
        if m:
            fields = {}
            for part in split_top(m.group(2)):
                k, _, v = part.partition(":")
                fields[k.strip()] = self.operand(env, v)
            return ("struct", m.group(1).split("::")[-1], fields)
        # tuple-variant constructor  Type::<..>::Variant(op, ..)
        m = re.match(r"^([\w:]+?)(?:::<[^(]*>)?::(\w+)\((.*)\)$", rv)
        if m and m.group(2)[0].isupper():
            return ("variant", m.group(1).split("::")[-1], m.group(2), [self.operand(env, x) for x in split_top(m.group(3))])
        # C-like enum variant / unit variant of a data-carrying enum (possibly with generic arguments: `E::<'_>::V`)
        m = re.match(r"^([\w:]+?)(?:::<[^>]*>)?::(\w+)$", rv)
        if m:
            v = self.clike(m.group(1), m.group(2))
            if v:
                return v
            if m.group(2)[0].isupper() and not m.group(2).isupper():
                return ("variant", m.group(1).split("::")[-1], m.group(2), [])     # unit variant of a data-carrying enum
        m = re.match(r"^([\w:<>]+) as .*\(PointerCoercion\(ReifyFnPointer.*\)$", rv)
        if m:
            return ("fn", strip_trailing_generics(m.group(1)).split("::")[-1])
        m = re.match(r"^((?:move|copy) \S+) as .* \(PointerCoercion\((?:Unsize|MutToConstPointer)", rv)
        if m:
            return self.operand(env, m.group(1))            # unsizing a reference does not change what it denotes
        m = re.match(r"^((?:move|copy) \S+) as \*(?:const|mut) .* \(PtrToPtr\)$", rv)
        if m:
            return self.operand(env, m.group(1))            # a pointer cast does not change what is pointed to
        m = re.match(r"^((?:move|copy) \S+) as ([iu](?:8|16|32|64|size)) \(IntToInt\)$", rv)
        if m:
            v = self.operand(env, m.group(1))
            r = self.fresh_int(m.group(2), "cast")
            if v[0] == "int":
                lo, hi = INT_RANGES[m.group(2)]
                # `as` between integer types: two's-complement wrap into the target range (the identity on values that fit)
                self.side.append(f"(= {r[1]} (+ (mod (- {v[1]} {int_lit(lo)}) {hi - lo + 1}) {int_lit(lo)}))")
            return r
        m = re.match(r"^(?:move|copy) .* as .* \(\w+(?:\(.*\))?\)$", rv)
        if m:
            return self.havoc(self.locs.get(dst))
        m = re.match(r"^([A-Z]\w*)$", rv)
        if m and m.group(1) not in ("ZeroSized",):
            return ("struct", m.group(1), {})          # unit struct
        return self.operand(env, rv)

    # ---- path enumeration ----
    def run(self, init_env=None):
        env = dict(init_env or {})
        hdr = self.header[: self.header.rindex("->")]
        for m in re.finditer(r"(_\d+): ", hdr):
            if m.group(1) not in env:
                env[m.group(1)] = self.havoc(self.locs.get(m.group(1)))
        self.arg_env = dict(env)
        self._go("bb0", env, [], (), {})
        return self.paths

    def run_from(self, bb, stop_blocks=(), init_env=None):
        """symbolic execution of a region: starts in block `bb` with every local unknown (havoced on first read) and
        ends a path when it returns or enters one of `stop_blocks` (outcome "stop:<bb>")"""
        self.stop_blocks = set(stop_blocks)
        self.arg_env = dict(init_env or {})
        self._go(bb, dict(init_env or {}), [], (), {}, first=True)
        return self.paths

    def _go(self, bb, env, pc, events, visits, first=False):
        if len(self.paths) > self.max_paths:
            raise Untranslatable("too many paths")
        if not first and bb in getattr(self, "stop_blocks", ()):
            self.paths.append(Path(pc, events, "stop:" + bb, None, env))
            return
        v = visits.get(bb, 0) + 1
        if v > self.unroll + 1:
            self.cut += 1
            return
        visits = dict(visits)
        visits[bb] = v
        env = dict(env)
        for st in self.blocks[bb]:
            st = st.rstrip(";")
            if st.startswith(("StorageLive", "StorageDead", "nop", "FakeRead", "PlaceMention", "AscribeUserType", "Retag", "Coverage")):
                continue
            self.cur_events = events
            if st == "return":
                self.paths.append(Path(pc, events, "return", env.get("_0"), env))
                return
            if st == "unreachable":
                return          # rustc-proved unreachable (exhaustive matches); infeasible by construction
            m = re.match(r"^goto -> (bb\d+)$", st)
            if m:
                return self._go(m.group(1), env, pc, events, visits)
            m = re.match(r"^switchInt\((.*)\) -> \[(.*)\]$", st)
            if m:
                val = self.operand(env, m.group(1))
                ty = None
                pm = re.match(r"^(?:copy|move) (_\d+)$", m.group(1).strip())
                if pm:
                    ty = self.locs.get(pm.group(1))
                if val[0] == "opaque":
                    val = ("int", self.fresh("Int", "sw"))
                seen = []
                for a in [x.strip() for x in m.group(2).split(",")]:
                    k, tgt = [x.strip() for x in a.split(":")]
                    if k == "otherwise":
                        cond = "true" if not seen else "(and " + " ".join(f"(not {c})" for c in seen) + ")"
                    else:
                        kv = int(k)
                        if val[0] == "bool":
                            cond = val[1] if kv != 0 else f"(not {val[1]})"
                        else:
                            if ty == "i8" and kv >= 128:
                                kv -= 256
                            cond = f"(= {val[1]} {int_lit(kv)})"
                        seen.append(cond)
                    if cond != "false" and not contradicts_literal(cond):
                        self._go(tgt, env, pc + [cond], events, visits)
                return
            m = re.match(r'^assert\((!?)(?:move |copy )?(.*?), "(.*?)".*\) -> \[success: (bb\d+), unwind.*\]$', st)
            if m:
                c = self.operand(env, m.group(2) if m.group(2).startswith("(") else "copy " + m.group(2))
                if c[0] != "bool":
                    c = self.havoc("bool")
                holds = f"(not {c[1]})" if m.group(1) == "!" else c[1]
                events = events + (("assert", m.group(3), list(pc), f"(not {holds})"),)
                return self._go(m.group(4), env, pc + [holds], events, visits)
            m = re.match(r"^drop\(.*\) -> \[return: (bb\d+), unwind.*\]$", st)
            if m:
                return self._go(m.group(1), env, pc, events, visits)
            m = parse_call(st)
            if m:
                dst, callee, args, ret = m
                argv = [self.operand(env, a) for a in split_top(args)] if args.strip() else []
                name = callee_suffix(callee)
                model = None
                for k, f in self.call_models.items():
                    if k.startswith("re:"):
                        if re.search(k[3:], callee):
                            model = f
                            break
                    elif name == k or ("::" in k and strip_trailing_generics(callee).endswith(k)):
                        model = f
                        break
                self.cur_events, self.cur_callee, self.cur_pc, self.cur_env = events, callee, pc, env
                res = model(self, argv) if model else self.havoc(self.locs.get(dst))
                for bl in env.get("$mutborrowed") or ():
                    env[bl] = self.havoc(self.locs.get(bl))
                env[dst] = res
                if model or name in self.log_calls or "*" in self.log_calls:
                    events = events + (("call", name, argv, res, len(pc), callee),)
                return self._go(ret, env, pc, events, visits)
            m = re.match(r"^(_\d+) = (?:core::panicking::)?(?:panic\w*|unreachable_display|expect_failed|unwrap_failed)\((.*)\) -> .*$", st)
            if m:
                self.paths.append(Path(pc, events, "panic", ("panic", m.group(2)[:60]), env))
                return
            m = re.match(r"^(_\d+) = .* -> (?:unwind .*|bb\d+)$", st)
            if m or st.startswith(("resume", "unwind")):
                return
            m = re.match(r"^(_\d+) = (.*)$", st)
            if m:
                env[m.group(1)] = self.rvalue(env, m.group(1), m.group(2))
                bm = re.match(r"^&mut (_\d+)$", m.group(2).strip())
                if bm:
                    ty = (self.locs.get(bm.group(1)) or "").strip()
                    if ty in INT_RANGES or ty == "bool" or ty.endswith("Status"):
                        # a scalar local whose address escapes mutably: any later call may write through the reference
                        env["$mutborrowed"] = tuple(set(env.get("$mutborrowed") or ()) | {bm.group(1)})
                am = re.match(r"^(?:no_retag )?(?:copy|move) (\(.*\))$", m.group(2).strip())
                if am and (self.locs.get(m.group(1), "").startswith("&")):
                    k = self.place_key(env, am.group(1))
                    if k:
                        al = dict(env.get("$alias") or {})
                        al[m.group(1)] = k
                        env["$alias"] = al
                continue
            m = re.match(r"^(\(.*\)) = (.*)$", st)
            if m and "->" not in st:
                self.store(env, m.group(1), self.rvalue(env, "", m.group(2)))
            continue    # other stores (derefs, indices): ignored (reads of unknown places are havoced)
        raise Untranslatable(f"block {bb} has no terminator")


def match_paren(s, i):
    """index of the parenthesis closing the one at s[i] (or -1)"""
    depth = 0
    for j in range(i, len(s)):
        if s[j] == "(":
            depth += 1
        elif s[j] == ")":
            depth -= 1
            if depth == 0:
                return j
    return -1


def contradicts_literal(cond):
    """conditions without any symbol (drop flags, fixed discriminants): evaluated here, infeasible branches are not explored"""
    if "|" in cond:
        return False
    toks = re.findall(r"\(|\)|[^\s()]+", cond)
    pos = [0]

    def ev():
        t = toks[pos[0]]
        pos[0] += 1
        if t == "true":
            return True
        if t == "false":
            return False
        if re.match(r"^-?\d+$", t):
            return int(t)
        if t != "(":
            raise ValueError(t)
        op = toks[pos[0]]
        pos[0] += 1
        args = []
        while toks[pos[0]] != ")":
            args.append(ev())
        pos[0] += 1
        if op == "not":
            return not args[0]
        if op == "and":
            return all(args)
        if op == "or":
            return any(args)
        if op == "=":
            return args[0] == args[1]
        if op == "-" and len(args) == 1:
            return -args[0]
        if op in ("<", "<=", ">", ">="):
            return {"<": args[0] < args[1], "<=": args[0] <= args[1], ">": args[0] > args[1], ">=": args[0] >= args[1]}[op]
        raise ValueError(op)
    try:
        return ev() is False
    except Exception:
        return False


def parse_call(st):
    """`_N = <callee>(<args>) -> [return: bbK, unwind ...]` -> (dst, callee, args, bbK) or None"""
    m = re.match(r"^(_\d+) = (.*) -> \[return: (bb\d+), unwind.*\]$", st)
    if not m or not m.group(2).endswith(")"):
        return None
    body = m.group(2)
    depth, i = 0, len(body) - 1
    while i >= 0:
        if body[i] == ")":
            depth += 1
        elif body[i] == "(":
            depth -= 1
            if depth == 0:
                break
        i -= 1
    if i <= 0:
        return None
    return m.group(1), body[:i], body[i + 1:-1], m.group(3)


def strip_trailing_generics(c):
    """remove a trailing `::<...>` (angle brackets matched; `->` inside fn types is not a bracket)"""
    while c.endswith(">"):
        depth, i = 0, len(c) - 1
        while i >= 0:
            ch = c[i]
            if ch == ">" and not (i > 0 and c[i - 1] == "-"):
                depth += 1
            elif ch == "<":
                depth -= 1
                if depth == 0:
                    break
            i -= 1
        if i >= 2 and c[i - 2:i] == "::":
            c = c[:i - 2]
        else:
            break
    return c


def callee_suffix(callee):
    c = strip_trailing_generics(callee.strip())
    return c.split("::")[-1].strip("<>")


def split_top(s):
    out, depth, cur, instr, prev = [], 0, "", False, ""
    for ch in s:
        if ch == '"' and prev != "\\":
            instr = not instr
        if not instr:
            if ch in "([{<":
                depth += 1
            elif ch in ")]}>":
                depth -= 1
        if ch == "," and depth == 0 and not instr:
            out.append(cur.strip())
            cur = ""
        else:
            cur += ch
        prev = ch
    if cur.strip():
        out.append(cur.strip())
    return out


# ---- call models shared by the aggregation checks ----
def m_result_status(ex, argv):
    return ex.fresh_result(ex.fresh_status("st"), "res")


def m_result_unit(ex, argv):
    return ex.fresh_result(ex.opq(), "ru")


def m_option(ex, argv):
    return ex.fresh_enum("Option", 2, "opt", {"Some": ex.opq()})


def m_identity(ex, argv):
    """clone / deref / borrow / as_ref ...: the result denotes the same value as the (first) argument"""
    return argv[0] if argv else ex.opq()


def m_try_branch(ex, argv):
    r = argv[0] if argv else ex.opq()
    if r[0] == "enum" and r[1] == "Result":
        return ("enum", "ControlFlow", r[2], {"Continue": r[3].get("Ok", ex.opq()),
                                               "Break": ("enum", "Result", "1", {"Err": r[3].get("Err", ex.opq())})})
    return ex.fresh_enum("ControlFlow", 2, "cf", {"Continue": ex.opq(), "Break": ex.opq()})


def m_from_residual(ex, argv):
    r = argv[0] if argv else ex.opq()
    err = r[3].get("Err", ex.opq()) if r[0] == "enum" else ex.opq()
    return ("enum", "Result", "1", {"Err": err})


def m_len(ex, argv):
    return ("int", ex.len_of(argv[0])) if argv else ex.havoc("usize")


def m_vec_from_array(ex, argv):
    """`vec![a, b, c]` / `Vec::from([..])`: the vector holds the array written just before (per path)"""
    if argv and argv[0][0] == "array":
        return argv[0]
    v = (getattr(ex, "cur_env", None) or {}).get("$last_array")
    return v if v is not None else ex.opq()


def m_is_empty(ex, argv):
    return ("bool", f"(= {ex.len_of(argv[0])} 0)") if argv else ex.havoc("bool")


def m_index(ex, argv):
    """`v[i]`: logged with (value, index term, length term); the element is a projection of v"""
    if len(argv) == 2 and argv[1][0] == "int":
        return ex.proj_of(argv[0], f"[{argv[1][1]}]") if argv[0][0] == "opaque" else ex.opq()
    return ex.opq()


def m_iter_next(ex, argv):
    """k-th `next()` on an iterator obtained (through identity models) from a collection value v: Some(v[k]) iff
    k < len(v). Enumerate adapters yield (k, v[k]). The position is the number of earlier `next` calls on the same
    iterator along this path."""
    if not argv or argv[0][0] != "opaque":
        return m_option(ex, argv)
    it = argv[0]
    src = ex.iter_src.get(it[1], it)
    k = sum(1 for e in ex.cur_events if e[0] == "call" and e[1] == "next" and e[2] and e[2][0] == it)
    if isinstance(src, tuple) and src and src[0] == "zip":
        # zip(a, b): pairs (a[k], b[k]); the two collections are assumed to have the same length (stated by the caller)
        sa, sb = src[1], src[2]
        n = ex.len_of(sa)
        tag = ex.fresh("Int", "nx")
        ex.side.append(f"(= {tag} (ite (< {k} {n}) 1 0))")
        return ("enum", "Option", tag, {"Some": ("tuple", [ex.proj_of(sa, f"[{k}]"), ex.proj_of(sb, f"[{k}]")])})
    n = ex.len_of(src)
    elem = ex.proj_of(src, f"[{k}]")
    if "Enumerate" in (ex.cur_callee or ""):
        elem = ("tuple", [("int", str(k)), elem])
    tag = ex.fresh("Int", "nx")
    ex.side.append(f"(= {tag} (ite (< {k} {n}) 1 0))")
    return ("enum", "Option", tag, {"Some": elem})


def m_iter_next_built(ex, argv):
    """like m_iter_next, but a vector that was created on this path (with_capacity / new) and filled only by push() is iterated
    as exactly the pushed values, in order (its length is the number of pushes so far)"""
    if argv and argv[0][0] == "opaque":
        it = argv[0]
        src = ex.iter_src.get(it[1], it)
        if isinstance(src, tuple) and src and src[0] == "opaque":
            made = any(e[0] == "call" and e[1] in ("with_capacity", "new") and e[3] == src for e in ex.cur_events)
            pushed = [e[2][1] for e in ex.cur_events if e[0] == "call" and e[1] == "push" and len(e[2]) == 2 and e[2][0] == src]
            if made:
                k = sum(1 for e in ex.cur_events if e[0] == "call" and e[1] == "next" and e[2] and e[2][0] == it)
                tag = ex.fresh("Int", "nx")
                ex.side.append(f"(= {tag} {1 if k < len(pushed) else 0})")
                return ("enum", "Option", tag, {"Some": pushed[k] if k < len(pushed) else ex.opq()})
    return m_iter_next(ex, argv)


def m_zip(ex, argv):
    """a.zip(b) for two iterator instances (or collections)"""
    if len(argv) != 2 or argv[0][0] != "opaque" or argv[1][0] != "opaque":
        return ex.opq()
    sa = ex.iter_src.get(argv[0][1], argv[0])
    sb = ex.iter_src.get(argv[1][1], argv[1])
    it = ex.opq()
    ex.iter_src[it[1]] = ("zip", sa, sb)
    return it


def m_new_iter(ex, argv):
    """`iter()` / `into_iter()`: a fresh iterator instance over the collection (a second loop over the same
    collection starts again at element 0); `into_iter()` of an iterator is the iterator itself"""
    src = argv[0] if argv else ex.opq()
    if src[0] == "opaque" and src[1] in ex.iter_src:
        return src
    it = ex.opq()
    ex.iter_src[it[1]] = src
    return it


def m_eq(ex, argv):
    if len(argv) == 2 and argv[0][0] == "enum" and argv[1][0] == "enum":
        return ("bool", f"(= {argv[0][2]} {argv[1][2]})")
    if len(argv) == 2 and argv[0][0] == argv[1][0] and argv[0][0] in ("int", "bool"):
        return ("bool", f"(= {argv[0][1]} {argv[1][1]})")
    return ex.havoc("bool")


def m_ne(ex, argv):
    r = m_eq(ex, argv)
    return ("bool", f"(not {r[1]})")


COMMON_MODELS = {"len": m_len, "is_empty": m_is_empty, "index": m_index, "eq": m_eq, "ne": m_ne, "clone": m_identity, "deref": m_identity, "deref_mut": m_identity, "as_ref": m_identity, "borrow": m_identity,
                 "branch": m_try_branch, "from_residual": m_from_residual, "next": m_option,
                 "into_iter": m_identity, "iter": m_identity, "enumerate": m_identity, "must_use": m_identity,
                 "start_record": m_result_unit, "end_record": m_result_unit}
