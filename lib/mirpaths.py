"""C10: how paths and source positions are attached to values when a loaded document (MarkedValue tree) is
converted into the evaluator's PathAwareValue tree. Decided on the MIR of `TryFrom<(MarkedValue, Path)>` with the
recursive call, the Path helpers and `MarkedValue::location` modelled as opaque calls whose ARGUMENT IDENTITIES are
checked (engine: mirexec.Exec; z3 + cvc5).
"""
import re
import mirsmt, mirexec
from mirsmt import Untranslatable, pc_term
from miragg import calls
from mirblocks import enum_variants, disc, field, payload, iterations, m_result_opq
from mirflow import same

SCALARS = ["String", "Regex", "Bool", "Int", "Float", "Char", "RangeInt", "RangeFloat", "RangeChar"]


def between(p, lo, hi, name):
    return [e for i, e in enumerate(p.events) if lo <= i < hi and e[0] == "call" and e[1] == name]


def path_construction(a):
    MV = enum_variants(a.src, "rules/values.rs", "MarkedValue")
    ex = a.exec(r"(?:rules::)?path_value::<impl at guard/src/rules/path_value\.rs:\d+:\d+: \d+:\d+>::try_from",
                {"try_from": m_result_opq, "with_location": lambda ex, av: ex.opq(), "extend_usize": lambda ex, av: ex.opq(),
                 "extend_string": lambda ex, av: ex.opq(), "extend_str": lambda ex, av: ex.opq(), "location": lambda ex, av: ex.opq(),
                 "next": mirexec.m_iter_next, "into_iter": mirexec.m_new_iter, "iter": mirexec.m_new_iter,
                 "to_owned": mirexec.m_identity, "to_string": mirexec.m_identity, "with_capacity": lambda ex, av: ex.opq()},
                log=("push", "insert"), unroll=2, max_paths=40000,
                first_arg_re=r"_1: \((?:rules::)?values::MarkedValue, (?:rules::)?path_value::Path\)")
    a.fns.append("rules::path_value::<PathAwareValue as TryFrom<(MarkedValue, Path)>>::try_from")
    arg = ex.arg_env["_1"]
    root, path = field(ex, arg, 0, "MarkedValue"), field(ex, arg, 1, "Path")
    d = disc(ex, root)
    bad, nelem = [], 0
    loc_gap = {"scalar": [], "list": [], "map": []}     # where a value's own position is NOT attached
    for p in ex.paths:
        r = p.ret
        if p.outcome == "panic" or not r or r[0] != "enum" or r[1] != "Result":
            bad.append(pc_term(p.pc))
            continue
        okv = r[3].get("Ok")
        probs, cond = [], "true"
        wl = calls(p, "with_location")
        if okv is None:
            # Err: a BadValue, or an error of the recursive conversion passed on
            rec_err = "(or false " + " ".join(f"(= {e[3][2]} 1)" for e in calls(p, "try_from")) + ")"
            cond = f"(or (= {d} {MV.index('BadValue')}) {rec_err})"
        elif okv[0] != "variant":
            probs.append("unexpected result shape")
        elif okv[2] in SCALARS or okv[2] == "Null":
            v = okv[2]
            cond = f"(= {d} {MV.index(v)})"
            if v == "Null":
                got_path, loc = okv[3][0], payload(ex, root, "Null", 0)
                got_val, want_val = None, None
            else:
                tup = okv[3][0]
                got_path, got_val = (tup[1][0], tup[1][1]) if tup[0] == "tuple" and len(tup[1]) == 2 else (None, None)
                loc, want_val = payload(ex, root, v, 1), payload(ex, root, v, 0)
            own_loc = (len(wl) == 1 and same(wl[0][3], got_path) and same(wl[0][2][0], path) and same(wl[0][2][1], loc))
            if not own_loc:
                if same(got_path, path):
                    loc_gap["scalar"].append(v)         # keeps the path (and position) handed down by its parent
                else:
                    probs.append("scalar: the value's path is neither the given path nor `path.with_location(<its own location>)`")
            if v != "Null" and not same(got_val, want_val):
                probs.append("scalar payload changed")
        elif okv[2] == "List":
            cond = f"(= {d} {MV.index('List')})"
            tup = okv[3][0]
            got_path, vec = (tup[1][0], tup[1][1]) if tup[0] == "tuple" and len(tup[1]) == 2 else (None, None)
            if not same(got_path, path):
                probs.append("list: own path changed")
            its = iterations(ex, p)
            bounds = [i for _k, _e, _t, i in its] + [len(p.events)]
            done = 0
            for n, (k, el, tag, i0) in enumerate(its):
                lo, hi = bounds[n], bounds[n + 1]
                eu, lc, w, tf, pu = (between(p, lo, hi, x) for x in ("extend_usize", "location", "with_location", "try_from", "push"))
                if not (eu or tf):
                    continue                            # the iteration that ends the loop
                nelem += 1
                done += 1
                # the location handed down is not examined: a scalar overwrites it with its own, and the property speaks of scalars
                sub = [eu[0][3]] + [x[3] for x in w if same(x[2][0], eu[0][3])] if len(eu) == 1 else []
                ok = (len(eu) == 1 and same(eu[0][2][0], path) and eu[0][2][1] == ("int", str(k))
                      and len(tf) == 1 and tf[0][2] and tf[0][2][0][0] == "tuple" and same(tf[0][2][0][1][0], el)
                      and any(same(tf[0][2][0][1][1], sp) for sp in sub))
                handed = (len(lc) == 1 and same(lc[0][2][0], el) and len(w) == 1 and len(eu) == 1 and same(w[0][2][0], eu[0][3])
                          and same(w[0][2][1], lc[0][3]) and len(tf) == 1 and same(tf[0][2][0][1][1], w[0][3]))
                if ok and not handed:
                    loc_gap["list"].append(k)
                if not ok:
                    probs.append(f"list element {k}: not converted with path `path/<{k}>`")
                elif pu and not (len(pu) == 1 and same(pu[0][2][0], vec) and same(pu[0][2][1], tf[0][3][3]["Ok"])):
                    probs.append(f"list element {k}: converted value not appended in order")
            n_it = "(+ 0 0 " + " ".join(f"(ite (= {t} 1) 1 0)" for _k, _e, t, _i in its) + ")"
            cond = f"(and {cond} (= {n_it} {done}))"
        elif okv[2] == "Map":
            cond = f"(= {d} {MV.index('Map')})"
            tup = okv[3][0]
            got_path, mv = (tup[1][0], tup[1][1]) if tup[0] == "tuple" and len(tup[1]) == 2 else (None, None)
            mloc = payload(ex, root, "Map", 1)
            own = [w for w in wl if same(w[3], got_path)]
            if not (len(own) == 1 and same(own[0][2][0], path) and same(own[0][2][1], mloc)):
                probs.append("map: own path is not `path.with_location(<the map's location>)`")
            keys_v = mv[2].get("keys") if mv and mv[0] == "struct" else None
            vals_v = mv[2].get("values") if mv and mv[0] == "struct" else None
            its = iterations(ex, p)
            bounds = [i for _k, _e, _t, i in its] + [len(p.events)]
            done = 0
            for n, (k, el, tag, i0) in enumerate(its):
                lo, hi = bounds[n], bounds[n + 1]
                es, lc, w, tf, ins, pu = (between(p, lo, hi, x) for x in ("extend_string", "location", "with_location", "try_from", "insert", "push"))
                if not (es or tf):
                    continue
                nelem += 1
                done += 1
                kt = field(ex, el, 0, "(String, Location)")
                key, kloc, val = field(ex, kt, 0, "String"), field(ex, kt, 1, "Location"), field(ex, el, 1, "MarkedValue")
                wv = [x for x in w if es and same(x[2][0], es[0][3])]
                wk = [x for x in w if same(x[2][0], path)]
                sub = [es[0][3]] + [x[3] for x in wv] if len(es) == 1 else []
                ok = (len(es) == 1 and same(es[0][2][0], path) and same(es[0][2][1], key)
                      and len(tf) == 1 and tf[0][2] and tf[0][2][0][0] == "tuple" and same(tf[0][2][0][1][0], val)
                      and any(same(tf[0][2][0][1][1], sp) for sp in sub))
                handed = (len(lc) == 1 and same(lc[0][2][0], val) and len(wv) == 1 and same(wv[0][2][1], lc[0][3])
                          and len(tf) == 1 and same(tf[0][2][0][1][1], wv[0][3]))
                if ok and not handed:
                    loc_gap["map"].append(k)
                if not ok:
                    probs.append(f"map entry {k}: value not converted with path `path/<key>`")
                    continue
                if ins or pu:
                    okk = (len(ins) == 1 and same(ins[0][2][0], vals_v) and same(ins[0][2][1], key) and same(ins[0][2][2], tf[0][3][3]["Ok"])
                           and len(pu) == 1 and same(pu[0][2][0], keys_v) and pu[0][2][1][0] == "variant" and pu[0][2][1][2] == "String"
                           and len(wk) == 1 and same(wk[0][2][1], kloc)
                           and pu[0][2][1][3][0][0] == "tuple" and same(pu[0][2][1][3][0][1][0], wk[0][3]) and same(pu[0][2][1][3][0][1][1], key))
                    if not okk:
                        probs.append(f"map entry {k}: value / key record not stored under its own key with the key's own location")
            n_it = "(+ 0 0 " + " ".join(f"(ite (= {t} 1) 1 0)" for _k, _e, t, _i in its) + ")"
            cond = f"(and {cond} (= {n_it} {done}))"
        else:
            probs.append("unexpected variant " + str(okv[2]))
        bad.append(f"(and {pc_term(p.pc)} (not {'false' if probs else cond}))")
    # a scalar's position: either every scalar arm attaches its own location, or every parent (list and map arm) hands the
    # child's own location down; a gap on both sides loses positions
    if loc_gap["scalar"] and (loc_gap["list"] or loc_gap["map"]):
        bad.append("true")
    c = a.discharge("PathAwareValue::try_from(MarkedValue)/paths-and-locations", ex, bad,
                    f"loader -> evaluator conversion, lists / maps of <= 2 entries ({nelem} entries over all paths): a scalar keeps its "
                    "payload and its path carries ITS OWN location (attached by the scalar arm itself or handed down by the enclosing "
                    "list / map arm); the i-th list element is converted under `path/i` (i = its position, "
                    "from 0), results appended in order; a map entry's value is converted under `path/<its key>` and stored under that "
                    "key, its key record carries the key's own location; the map itself carries the map's location; a BadValue or a "
                    "failing recursive conversion is an Err")
    if c:
        c["replay"] = replay_paths(a)
        c["reproduced"] = c["replay"].get("reproduced", False)
        a.candidates.append(c)


def extend_usize_wiring(a):
    """Path::extend_usize: the list index is rendered by the standard decimal `to_string` and appended as one segment"""
    ex = a.exec(r"(?:rules::)?path_value::<impl at guard/src/rules/path_value\.rs:\d+:\d+: \d+:\d+>::extend_usize",
                {"to_string": lambda ex, av: ("tuple", [("str", "decimal-of"), av[0]]), "extend_string": lambda ex, av: ex.opq(),
                 "extend_str": lambda ex, av: ex.opq()}, log=("*",), unroll=1, max_paths=200)
    a.fns.append("rules::path_value::Path::extend_usize")
    me, part = ex.arg_env["_1"], ex.arg_env["_2"]
    bad = []
    for p in ex.paths:
        ts = calls(p, "to_string")
        es = calls(p, "extend_string") + calls(p, "extend_str")
        ok = (p.outcome == "return" and len(ts) == 1 and same(ts[0][2][0], part) and len(es) == 1 and same(es[0][2][0], me)
              and es[0][2][1] == ("tuple", [("str", "decimal-of"), part]) and p.ret == es[0][3])
        bad.append("false" if ok else pc_term(p.pc))
    c = a.discharge("Path::extend_usize/decimal-segment", ex, bad,
                    "a list element's path is the list's path extended by exactly one segment: the element's index rendered by the "
                    "standard (decimal) integer formatting - on every path through the function", witness=False)
    if c:
        c["replay"] = replay_paths(a)
        c["reproduced"] = c["replay"].get("reproduced", False)
        a.candidates.append(c)


def mark_to_location(a):
    """C10, libyaml boundary: the position attached to an event is libyaml's START mark of that event, line -> line and column -> col
    (system_mark_to_location copies the two fields unchanged, u64 -> usize); Parser::next hands exactly that location on together
    with the converted event. What libyaml puts into the mark is assumed."""
    import mirflow
    ex = a.exec(r"(?:(?:rules::)?libyaml::util::)?system_mark_to_location", {}, unroll=1, max_paths=50, deepen=False)
    a.fns.append("rules::libyaml::util::system_mark_to_location")
    mark = ex.arg_env["_1"]
    bad = []
    for p in ex.paths:
        r = p.ret
        if p.outcome != "return" or not r or r[0] != "struct" or set(r[2]) != {"line", "col"} or mark[0] != "opaque":
            bad.append(pc_term(p.pc))
            continue
        ln, col = ex.proj.get((mark[1], ".1")), ex.proj.get((mark[1], ".2"))       # yaml_mark_t { index, line, column }
        ok = ln is not None and col is not None and ln[0] == "int" and col[0] == "int" and r[2]["line"][0] == "int" and r[2]["col"][0] == "int"
        good = f"(and (= {r[2]['line'][1]} {ln[1]}) (= {r[2]['col'][1]} {col[1]}))" if ok else "false"
        bad.append(f"(and {pc_term(p.pc)} (not {good}))")
    c1 = a.discharge("libyaml/system_mark_to_location/line-and-column", ex, bad,
                     "system_mark_to_location: Location.line is the mark's line and Location.col the mark's column, for every 64-bit value (not swapped, "
                     "not shifted, the index field plays no part)")
    ex2 = a.exec(r"(?:rules::)?libyaml::parser::<impl at guard/src/rules/libyaml/parser\.rs:\d+:\d+: \d+:\d+>::next",
                 {"yaml_parser_parse": lambda ex, av: ("struct", "Success", {"fail": ex.havoc("bool"), "ok": ex.havoc("bool")}),
                  "convert_event": lambda ex, av: ex.opq(), "system_mark_to_location": lambda ex, av: ex.opq(),
                  "yaml_event_delete": lambda ex, av: ("unit",), "as_mut_ptr": mirexec.m_identity, "uninit": lambda ex, av: ex.opq()},
                 unroll=1, max_paths=400, deepen=False)
    a.fns.append("rules::libyaml::parser::Parser::next")
    bad2, nok = [], 0
    for p in ex2.paths:
        r = p.ret
        if p.outcome != "return" or not r or r[0] != "enum" or r[1] != "Result":
            continue
        okv = r[3].get("Ok")
        if okv is None or (r[2] == "1"):
            continue
        nok += 1
        ce, ml, pp = calls(p, "convert_event"), calls(p, "system_mark_to_location"), calls(p, "yaml_parser_parse")
        shape = (len(ce) == 1 and len(ml) == 1 and len(pp) == 1 and okv[0] == "tuple" and okv[1] == [ce[0][3], ml[0][3]]
                 and ce[0][2][0] == pp[0][2][1] and ml[0][2][0][0] == "opaque")
        # the mark handed over is field `start_mark` of the event just parsed (yaml_event_t { type_, data, start_mark, end_mark })
        o, ks = mirflow.origin(ex2, ml[0][2][0]) if shape else (None, None)
        shape = shape and o == pp[0][2][1] and ks == [".2"]
        bad2.append(f"(and {pc_term(p.pc)} (= {r[2]} 0) (not {'true' if shape else 'false'}))")
    c2 = a.discharge("libyaml/Parser::next/start-mark", ex2, bad2,
                     f"Parser::next ({nok} Ok paths): the event returned is convert_event of the event just parsed, and the location returned with it is "
                     "system_mark_to_location of THAT event's start_mark (not its end mark, not another event's)")
    for c in (c1, c2):
        if c:
            import mirload
            c["replay"] = mirload.replay_yaml_positions(a)
            if not c["replay"].get("reproduced"):
                r2 = replay_paths(a)
                if r2.get("reproduced"):
                    c["replay"] = r2
            c["reproduced"] = c["replay"].get("reproduced", False)
            a.candidates.append(c)


def replay_paths(a):
    """every failing check's `from.path` must resolve, in the document, to the reported value; the line/column in the
    message must be where that scalar starts in the file text"""
    import json
    exe = a.cli()
    if not exe:
        return {"reproduced": False, "note": "native build failed"}
    doc = {"a": [10, 20, {"b": [30, 40]}], "m": {"k1": 50, "k2": {"k3": 60}}, "s": "x", "big": list(range(100, 118)),
           "nl": [1, None, 2], "ll": [[7, 8], [9]], "mix": [True, "str", 1.5], "mn": {"z": None}}
    text = json.dumps(doc, indent=1) + "\n"
    rules = ("rule t {\n  a[0] == 0\n  a[1] == 0\n  a[2].b[0] == 0\n  a[2].b[1] == 0\n  m.k1 == 0\n  m.k2.k3 == 0\n  s == 'y'\n  big[9] == 0\n"
             "  big[10] == 0\n  big[11] == 0\n  big[15] == 0\n  big[16] == 0\n  big[17] == 0\n"
             "  nl[1] == 0\n  nl[2] == 0\n  ll[0][1] == 0\n  ll[1][0] == 0\n  mix[0] == 0\n  mix[1] == 0\n  mix[2] == 0\n  mn.z == 0\n}\n")
    rc, rep, err = a.run_structured(exe, rules, [text])
    if not (rep and isinstance(rep, list) and rep):
        return {"reproduced": False, "note": "no report", "exit": rc, "stderr": (err or "")[-200:]}
    out, seen = [], 0
    lines = text.splitlines()

    def walk(o):
        if isinstance(o, dict):
            if "from" in o and isinstance(o["from"], dict) and "path" in o["from"]:
                yield o
            for v in o.values():
                yield from walk(v)
        elif isinstance(o, list):
            for v in o:
                yield from walk(v)
    for chk in walk(rep[0].get("not_compliant", [])):
        frm = chk["from"]
        seen += 1
        cur = doc
        try:
            for seg in [s for s in frm["path"].split("/") if s != ""]:
                cur = cur[int(seg)] if isinstance(cur, list) else cur[seg]
        except Exception:
            out.append({"path": frm["path"], "problem": "does not resolve in the document"})
            continue
        if cur != frm.get("value"):
            out.append({"path": frm["path"], "reported_value": frm.get("value"), "value_at_path": cur})
    # positions: "Path=/a/0[L:2,C:2]" style fragments in error messages
    blob = json.dumps(rep[0])
    for m in re.finditer(r"Path=(/[^\[\]]*)\[L:(\d+),C:(\d+)\] Value=(\\?\"?[\w]+)", blob):
        pth, ln, col, val = m.group(1), int(m.group(2)), int(m.group(3)), m.group(4).replace('\\"', '"')
        if val.strip('"') == "NULL":
            val = "null"                  # a null is rendered as "NULL" in messages; in the JSON text it is spelled null
        if ln >= len(lines) or not lines[ln][col:].startswith(val.strip('"') if not lines[ln][col:].startswith('"') else val):
            out.append({"path": pth, "line": ln, "col": col, "text_at_position": (lines[ln][col:col + 12] if ln < len(lines) else None),
                        "reported_value": val})
    if seen < 21:
        out.append({"problem": f"only {seen} of 21 failing checks reported with a path"})
    return {"reproduced": bool(out), "mismatches": out[:5], "document": text, "rules_file": rules}


def data_file_text_wiring(a):
    """build_data_file: the text handed to the loader is the file's own text (positions are positions in the file), and the
    value stored is what the loader produced from it"""
    ex = a.exec(r"(?:commands::validate::)?build_data_file",
                {"trim": lambda ex, av: ex.opq(), "is_empty": lambda ex, av: ex.havoc("bool"), "read_from": m_result_opq, "try_from": m_result_opq,
                 "deref": mirexec.m_identity, "as_str": mirexec.m_identity, "min": lambda ex, av: ex.havoc("usize"),
                 "is_char_boundary": lambda ex, av: ("bool", "true"), "len": lambda ex, av: ex.havoc("usize"), "index": lambda ex, av: ex.opq(),
                 "to_string": lambda ex, av: ex.opq()},
                log=("trim",), unroll=1, max_paths=4000)
    a.fns.append("commands::validate::build_data_file (text -> loader wiring)")
    content, name = ex.arg_env["_1"], ex.arg_env["_2"]
    bad, nload = [], 0
    for p in ex.paths:
        r = p.ret
        if p.outcome != "return" or not r or r[0] != "enum" or r[1] != "Result":
            continue                                  # panics of the preview slice are decided by the Kani K14 harnesses
        rf = calls(p, "read_from")
        tf = calls(p, "try_from")
        probs = []
        for e in rf:
            nload += 1
            if not same(e[2][0], content):
                probs.append("the loader is given something other than the file's full text")
        okv = r[3].get("Ok")
        if okv is not None and okv[0] == "struct":
            if not (rf and tf and rf[0][3][0] == "enum" and same(tf[0][2][0], rf[0][3][3]["Ok"]) and tf[0][3][0] == "enum"
                    and same(okv[2].get("path_value"), tf[0][3][3]["Ok"])):
                probs.append("the stored value is not the conversion of what the loader returned")
            if not (same(okv[2].get("content"), content) and same(okv[2].get("name"), name)):
                probs.append("the stored text / name are not the file's own")
        bad.append(pc_term(p.pc) if probs else "false")
    c = a.discharge("build_data_file/loader-gets-the-file-text", ex, bad,
                    f"build_data_file ({nload} loader calls over all paths): the loader is called on the file's full text - not on a trimmed or "
                    "otherwise shifted copy, so that line / column marks are positions in the file - and the DataFile stores the conversion of "
                    "exactly the loader's result together with the file's own text and name", witness=False)
    if c:
        c["replay"] = replay_leading_whitespace(a)
        if not c["replay"].get("reproduced"):
            r2 = replay_trailing_text(a)
            if r2.get("reproduced"):
                c["replay"] = r2
        c["reproduced"] = c["replay"].get("reproduced", False)
        a.candidates.append(c)


def replay_trailing_text(a):
    """YAML documents whose LAST node is a block scalar: the line breaks that end the file belong to the scalar (clip keeps one, keep
    keeps all, strip none); the value must be what the same scalar has when another key follows it"""
    exe = a.cli()
    if not exe:
        return {"reproduced": False, "note": "native build failed"}
    out = []
    cases = [("s: |\n  echo hello\n", "s == /^echo hello\\n$/", "PASS"), ("s: |+\n  echo hello\n\n", "s == /^echo hello\\n\\n$/", "PASS"),
             ("s: >\n  echo hello\n", "s == /^echo hello\\n$/", "PASS"), ("s: |-\n  echo hello\n", "s == /^echo hello$/", "PASS"),
             ("s: |\n  echo hello\n", "s == /^echo hello$/", "FAIL"), ("s: |\n  echo hello\nz: 1\n", "s == /^echo hello\\n$/", "PASS"),
             ("t: 1\ns: |\n  a\n  b\n", "s == /^a\\nb\\n$/", "PASS")]
    for text, clause, exp in cases:
        rc, rep, err = a.run_structured(exe, "rule r {\n  " + clause + "\n}\n", [text])
        if not (rep and isinstance(rep, list) and rep):
            out.append({"document": text, "clause": clause, "problem": "no report", "exit": rc})
            continue
        r_ = rep[0]
        got = "PASS" if "r" in r_.get("compliant", []) else ("SKIP" if "r" in r_.get("not_applicable", []) else "FAIL")
        if got != exp:
            out.append({"document": text, "clause": clause, "expected": exp, "observed": got})
    real = [o for o in out if "problem" not in o]
    return {"reproduced": bool(real), "mismatches": out[:4]}


def replay_leading_whitespace(a):
    """the same document with and without leading blank lines / spaces: every reported [L,C] must point at the text of the
    value in the FILE"""
    import json, re as _re
    exe = a.cli()
    if not exe:
        return {"reproduced": False, "note": "native build failed"}
    body = '{"a":\n  7,\n "b": {"c":\n   8}}\n'
    out, tried = [], []
    for label, prefix in (("as is", ""), ("two leading blank lines", "\n\n"), ("leading spaces", "   "), ("blank line + spaces", "\n  ")):
        text = prefix + body
        rc, rep, err = a.run_structured(exe, "rule r {\n  a == 1\n  b.c == 2\n}\n", [text])
        if not (rep and isinstance(rep, list) and rep):
            tried.append({"case": label, "problem": "no report", "exit": rc})
            continue
        lines = text.split("\n")
        marks = _re.findall(r"Path=(/[\w/]+)\[L:(\d+),C:(\d+)\] Value=(\d+)", json.dumps(rep))
        okc = bool(marks)
        for path, l, c_, val in marks:
            l, c_ = int(l), int(c_)
            at = lines[l][c_:] if l < len(lines) else ""
            if not at.startswith(val):
                okc = False
                out.append({"case": label, "path": path, "reported": [l, c_], "value": val, "text_there": at[:12]})
        tried.append({"case": label, "ok": okc, "marks": len(marks)})
    return {"reproduced": bool(out), "mismatches": out[:4], "tried": tried,
            "note": "; ".join(t["problem"] for t in tried if "problem" in t) or None}


def report_value_rendering(a):
    """C10 (`every reported value is the value the document holds at the reported path`): the {path, value} pairs of all reports are
    built by <&PathAwareValue as TryInto<(String, serde_json::Value)>>::try_into. For the scalar kinds that JSON has: the rendered value
    is built from the value's OWN payload by the lossless constructor of its kind - Null -> Null, Bool(b) -> Bool(b), String(s) -> String(s),
    Int(i) -> Number::from(i), Float(f) -> Number::from_f64(f) (an error when that is None) - with no arithmetic or cast in between."""
    from mirflow import origin
    PV = enum_variants(a.src, "rules/path_value.rs", "PathAwareValue")
    ex = a.exec(r"(?:rules::)?path_value::<impl at guard/src/rules/path_value\.rs:\d+:\d+: \d+:\d+>::try_into",
                {"self_path": lambda ex, av: ex.opq(), "try_into": m_result_opq, "format": lambda ex, av: ex.opq(), "from_f64": mirexec.m_option,
                 "next": mirexec.m_iter_next, "iter": mirexec.m_new_iter, "into_iter": mirexec.m_new_iter, "with_capacity": lambda ex, av: ex.opq(),
                 "new": lambda ex, av: ex.opq(), "to_string": lambda ex, av: ex.opq()},
                log=("from", "from_f64", "fract", "trunc", "round", "floor", "ceil"), unroll=1, max_paths=4000,
                first_arg_re=r"_1: &(?:rules::)?path_value::PathAwareValue")
    a.fns.append("rules::path_value::<&PathAwareValue as TryInto<(String, serde_json::Value)>>::try_into")
    me = ex.arg_env["_1"]
    d = disc(ex, me)

    def own(v, kind):
        """v is the second component of the payload tuple of `kind` of the value being rendered"""
        if v is None:
            return False
        if v[0] == "opaque":
            o = origin(ex, v)
            return same(o[0], me) and len(o[1]) >= 1 and o[1][-1] == ".1" and all(k in (f"as {kind}", ".0", ".1") or k.startswith("as ") for k in o[1])
        for (b, k), val in ex.proj.items():
            if val == v and k == ".1" and isinstance(b, int):
                o = origin(ex, ("opaque", b))
                return same(o[0], me)
        return False
    bad, n = [], 0
    for p in ex.paths:
        r = p.ret
        if p.outcome != "return" or not r or r[0] != "enum":
            bad.append(pc_term(p.pc))
            continue
        okv = r[3].get("Ok")
        fr = [e for e in calls(p, "from") if "serde_json::Number" in (e[5] if len(e) > 5 else "")]
        ff = calls(p, "from_f64")
        arith = [e for e in p.events if e[0] == "call" and e[1] in ("fract", "trunc", "round", "floor", "ceil")]
        val = okv[1][1] if okv is not None and okv[0] == "tuple" and len(okv[1]) == 2 else None
        conds = []
        # Null
        conds.append(f"(=> (= {d} {PV.index('Null')}) {'true' if (val is not None and val[0] == 'variant' and val[2] == 'Null' and not fr and not ff) else 'false'})")
        okb = val is not None and val[0] == "variant" and val[2] == "Bool" and own(val[3][0], "Bool") and not fr and not ff
        conds.append(f"(=> (= {d} {PV.index('Bool')}) {'true' if okb else 'false'})")
        oks = val is not None and val[0] == "variant" and val[2] == "String" and own(val[3][0], "String") and not fr and not ff
        conds.append(f"(=> (= {d} {PV.index('String')}) {'true' if oks else 'false'})")
        oki = (val is not None and val[0] == "variant" and val[2] == "Number" and len(fr) == 1 and not ff and not arith and same(val[3][0], fr[0][3])
               and own(fr[0][2][0], "Int") and "From<i64>" in fr[0][5])
        conds.append(f"(=> (= {d} {PV.index('Int')}) {'true' if oki else 'false'})")
        if len(ff) == 1 and not fr and not arith and own(ff[0][2][0], "Float"):
            some = ff[0][3][3].get("Some")
            okf_some = val is not None and val[0] == "variant" and val[2] == "Number" and same(val[3][0], some)
            okf = f"(ite (= {ff[0][3][2]} 1) {'true' if okf_some else 'false'} {'true' if okv is None else 'false'})"
        else:
            okf = "false"
        conds.append(f"(=> (= {d} {PV.index('Float')}) {okf})")
        n += 1
        bad.append(f"(and {pc_term(p.pc)} (not (and {' '.join(conds)})))")
    c = a.discharge("report/value-rendering/scalars-from-their-own-payload", ex, bad,
                    f"the {{path, value}} pair of a reported value ({n} paths): Null -> null, Bool / String -> the payload itself, Int(i) -> Number::from(i), "
                    "Float(f) -> Number::from_f64(f) or an error when JSON has no such number; no rounding, truncation or cast on the way "
                    "(Regex / Char / ranges / the recursion into lists and maps are not examined)")
    if c:
        c["replay"] = replay_reported_values(a)
        c["reproduced"] = c["replay"].get("reproduced", False)
        a.candidates.append(c)


def replay_reported_values(a):
    """numbers of every size class as data values of failing clauses: every {path, value} pair of the JSON report resolves, in the
    document, to that very value (compared as Python numbers / strings after json.loads of both)"""
    import json as _json
    exe = a.cli()
    if not exe:
        return {"reproduced": False, "note": "native build failed"}
    doc = {"i": 7, "neg": -3, "big": 9007199254740993, "max": 9223372036854775807, "umax": 18446744073709551615, "over": 9223372036854775808,
           "f": 2.5, "whole": 2.0, "e19": 1e19, "e300": 1e300, "tiny": 1e-7, "negf": -1.0e19, "s": "2", "b": True, "z": None,
           "l": [1, 2.0, 1e19], "m": {"k": 18446744073709551615}}
    data = _json.dumps(doc) + "\n"
    out = []

    def walk(o):
        if isinstance(o, dict):
            if set(o.keys()) >= {"path", "value"} and isinstance(o["path"], str):
                yield o["path"], o["value"]
            for v in o.values():
                yield from walk(v)
        elif isinstance(o, list):
            for v in o:
                yield from walk(v)

    def resolve(path):
        cur = doc
        for seg in [x for x in path.split("/") if x]:
            if isinstance(cur, list):
                cur = cur[int(seg)]
            else:
                cur = cur[seg]
        return cur
    def eqv(w, v):
        """equal as the loader reads the document: an integer beyond i64 is kept as the nearest f64 (documented under C11)"""
        if isinstance(w, bool) or isinstance(v, bool) or w is None or v is None or isinstance(w, str) or isinstance(v, str):
            return type(w) == type(v) and w == v
        if isinstance(w, (int, float)) and isinstance(v, (int, float)):
            return w == v or (isinstance(v, float) and not (-2**63 <= w < 2**63) and float(w) == v)
        if isinstance(w, list) and isinstance(v, list):
            return len(w) == len(v) and all(eqv(x, y) for x, y in zip(w, v))
        if isinstance(w, dict) and isinstance(v, dict):
            return set(w) == set(v) and all(eqv(w[k], v[k]) for k in w)
        return False
    npairs = 0
    for key in doc:
        rules = f"rule t {{\n  {key} == \"no such value\"\n}}\n" if key not in ("l", "m") else f"rule t {{\n  {key} == 0\n}}\n"
        rc, rep, err = a.run_structured(exe, rules, [data])
        if not (rep and isinstance(rep, list)):
            continue
        for path, value in walk(rep):
            if not path:
                continue
            try:
                want = resolve(path)
            except Exception:
                continue
            npairs += 1
            if not eqv(want, value):
                out.append({"path": path, "document_has": repr(want), "report_says": repr(value)})
    return {"reproduced": bool(out), "mismatches": out[:5], "pairs_checked": npairs}


SITES = {"C10": [path_construction, extend_usize_wiring, data_file_text_wiring, mark_to_location, report_value_rendering], "C11": [path_construction, data_file_text_wiring]}
