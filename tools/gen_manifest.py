#!/usr/bin/env python3
"""Regenerates /verif/MANIFEST.json from the tables below (claims) and properties.jsonl (ids)."""
import json, os, sys
V = os.path.dirname(os.path.dirname(os.path.abspath(__file__)))
TB = ("Trusted base: rustc nightly-2026-08-21 MIR, kani-compiler 0.68, CBMC 6.11 + CaDiCaL, Kani's std models; the stubs "
      "(format! -> empty string, destructors not run [core::ptr::drop_in_place -> no-op, Rc::drop_slow -> no-op], regex engine "
      "replaced by nondeterministic match / failing construction, fixed hash keys) are part of every claim; dev-profile semantics "
      "(overflow checks on). Bounds are per harness and listed in the evidence file; nothing outside them is claimed. ")

CLAIMS = {
 "C01": dict(
  text="Bounded model checking (Kani/CBMC, all inputs within the bound, unwinding assertions on) of the real evaluator's "
       "building blocks: the unary-operator leaf kernel on every kind of query result (exists/empty/is_* truth table, `empty` "
       "on a number is an error), the whole clause evaluator eval_guard_access_clause on its unary path with a stub "
       "context (per-value truth, some/all fold, SKIP on empty selection, emitted records), the scalar comparison leaf, the "
       "CNF combinator and the named-rule clause, list index arithmetic. It decides ingredients of the documented semantics for "
       "all values in the bound, not verdicts of parsed programs on loaded documents. The block level and the binary path, which CBMC "
       "cannot enter, are decided by bounded symbolic execution of their MIR with modelled callees (z3+cvc5): eval_rule, inner `when` "
       "blocks, query blocks (eval_guard_block_clause: empty selection -> SKIP / FAIL for !empty, unresolved = FAIL, all/some fold over "
       "<=2 values), type blocks (eval_type_block_clause), binary_operation (a value is PASS iff its comparison outcome is Success; "
       "Fail / NotComparable / unresolved operands are FAIL; empty operand set = SKIP), the operator dispatch of CmpOperator::compare, "
       "match_value (Ok(true) / Ok(false) / NotComparable classification, operands in order), CommonOperator::compare (every left x right "
       "pair compared once, in order, with the operator's comparator) and the query traversal step by step: accumulate (`[*]`/`*` over a "
       "list: empty -> unresolved, else continue at the next position with every element in order), retrieve_index (all i32: element |i| "
       "iff |i| < len), map_resolved, the filter on a map value, and the dispatcher arm by arm (this, [*] and * on list / map / scalar incl. the per-entry continuations that capture a named key, [n], "
       ".key and .n, [filter] on list and on map, [ keys <op> v ] on a map incl. 'the key comparison always answers with a per-value list') - each against an arbitrary result of the continuation.",
  note="Also on MIR: the variable head of a query (resolved through the scope, each value continued at the next position), EqOperation / "
       "InOperation operand roles (a left value is always paired with a right value, by compare_eq), contained_in's five cases, and the "
       "rule-status rule `rule referenced by name = its RuleCheck status`. NOT covered: the parser, the traversal arm for a variable key "
       "and the recursion as a whole (each step is decided against an arbitrary result of the next), the "
       "literal-vs-query special cases and list flattening of EqOperation / InOperation, functions inside clauses. The Kani evaluation context "
       "is a harness stub that returns planted query results; the MIR checks model every callee by a symbolic result and keep loops to "
       "<= 2 iterations (longer selections are cut and counted in the evidence)."
       "Added later: the three clause dispatchers (each clause kind is handed to the evaluator of its kind with its own payload and the scope given), scope discipline (guards in the enclosing scope, bodies in block_scope(this block), per selected value a ValueScope rooted at that value), PartialEq of MapValue / PathAwareValue per pair of kinds, resolve_function (built-in call arguments).",
  design="4/C01"),
 "C02": dict(
  text="Bounded model checking of the combinator sites: eval_conjunction_clauses for every leaf outcome vector (PASS/FAIL/SKIP/Err) "
       "of every CNF shape up to 2x2 (quick) / 3x3 (thorough) incl. short-circuit, the emitted Disjunction records and start/end "
       "balance; eval_guard_named_clause for every dependent status x negation; the clause-level block record; Status::and algebra. "
       "The rule / file / when sites that Kani cannot reach are decided by bounded symbolic execution of their MIR (lib/mirexec.py, "
       "z3+cvc5): eval_rules_file (<=2 rules: file status = fold, FileCheck record, each rule evaluated through eval_rule exactly once), "
       "eval_rule and eval_when_condition_block (body evaluated iff the `when` is PASS, else SKIP; status = body status; records), "
       "eval_guard_block_clause and eval_type_block_clause (<=2 selected values: status fold, one body evaluation per resolved value, "
       "BlockGuardCheck / TypeCheck record carries the returned status, a type block whose `when` is not PASS evaluates nothing), "
       "and the record tree itself: RecordTracker::end_record attaches the innermost open record, with exactly the given container, as "
       "the last child of the next open record (or makes it the root), and is an error - attaching nothing - when nothing is open or "
       "the contexts differ; start_record opens one record.",
  note="The MIR checks model every callee by a symbolic result (e.g. eval_rule returns an arbitrary Result<Status,Error>), unroll loops "
       "twice and treat unknown statements as havoc: they decide the aggregation logic of each function, not the callees. Also decided: "
       "the record hook of a parameterised rule call rebuilds only the RuleCheck of the rule the call names and keeps its name and status "
       "(only the message may change); the per-value records of `empty` on a variable / filter carry the final (negated) status. NOT covered: "
       "the records written by filters, whole-run well-nesting (only each single start / end step is decided), "
       "the JSON rendering."
       "Added later: the record hooks of the three scopes are pure delegations (nothing else is written when a record passes through)."
       " Added last: the rule_status obligation of C04 (status of a name referenced as a clause = first non-SKIP definition) also runs here.",
  design="4/C02"),
 "C03": dict(
  text="Bounded model checking of negation on the unary path at leaf level (not_operation / inverse_operation laws for all 9 unary "
       "operators on every kind of query result: prefix `not` == operator-level `!`, double negation restores, errors never become "
       "successes) AND at clause level (eval_guard_access_clause with symbolic operator polarity, prefix negation and some/all: the "
       "clause status is the per-value truth xor `!op` xor `not`); `not R` for named rules for every status of R.",
  note="Binary path: the operator layer (operators.rs) does not terminate under CBMC, so binary clauses are covered only by a MIR-level "
       "dependency check on eval_guard_access_clause (z3+cvc5): along the paths that call binary_operation, some value passed or branched "
       "on must change when gac.negation is flipped. On the pinned tree it did not (prefix `not` ignored on ==,!=,<,<=,>,>=,in: genuine "
       "defect, replayed through the CLI, fixed in /repo). The operator-level flag is decided on the MIR of `(CmpOperator, bool)::compare` "
       "and its result-flipping closure: Success always becomes Fail, a value / value-in Fail becomes Success with the same operands, "
       "NotComparable and unresolved operands are returned unchanged, the operands reach the operator in order, and without the flag the "
       "result is returned as is. A failed list-in outcome under the flag: every element of the left list is looked up in the old difference, the new "
       "difference is exactly the elements found on the right, Success iff it is empty. Parser side: the access-clause builder stores "
       "negation = 'a prefix not was parsed' and the (operator, operator-level not) pair as parsed, neither folded into the other. A failed "
       "query-in outcome under the flag: new difference = reverse_diff(old difference, one operand list), Success iff empty; reverse_diff "
       "keeps exactly the elements not in the old difference. The clause evaluator hands binary_operation the clause's OWN operator and the "
       "flag `operator-level not XOR prefix not`, nothing else."
       "Added later: the prefix `not` of a parameterised rule call (found ignored: D16, fixed) - the call obligation has the negation flag symbolic."
       " Added last: the binary_operation value -> status obligation (a comparison that is SKIP stays SKIP under every negation) also runs here; replay with right-hand queries that select nothing.",
  design="4/C03"),
 "C04": dict(
  text="Bounded model checking that the real CNF combinator returns the same status for a CNF and for any permutation of its "
       "lines and alternatives (symbolic permutation, up to 3x3) with optional duplication of a line/alternative, for all leaf status "
       "vectors; plus commutativity/associativity of the file-status combination.",
  note="History dimension: decided at MIR level only as 'memo consistency' of RootScope::rule_status, RootScope::resolve_variable and "
       "BlockScope::resolve_variable (what is stored in the cache is the value returned, on every path; callees havoced, opaque values "
       "tracked by identity) plus root_scope's name -> definitions table (every definition appended under its own name), the order-free fold of eval_rules_file and the named-rule status rule (RootScope::rule_status, <=2 definitions: the cached status if "
       "present, else the definitions of that name are evaluated in order through eval_rule and the first status that is not SKIP "
       "decides, SKIP if all are; the result is stored under that name and returned). NOT covered: the traversal that fills those caches, key "
       "capture (add_variable_capture_key), parameterised rules."
       "Added later: the pass-through methods of RootScope / BlockScope / ValueScope (record hooks, rule_status, find_parameterized_rule ...) make exactly one call with the arguments given and write nothing - no memo table is fed from a record passing through."
       "Added later: literal / cached answers of resolve_variable write nothing; an unresolvable key variable is an error of the query (orderings that must stay errors); the query dispatcher runs here too."
       " Added last: rule_status answers SKIP only after ALL definitions of the name were evaluated and are SKIP (the walk ends early only on a non-SKIP status); replay with unguarded definitions that evaluate to SKIP in both orders.",
  design="4/C04"),
 "C05": dict(
  text="Order-independence, decided on MIR (z3+cvc5): inside one process image the only run-to-run variable is the iteration order of "
       "std HashMap / HashSet (RandomState). Every function of the crate that iterates such a collection, and every derived Serialize "
       "that serialises one in place, is ENUMERATED FROM THE MIR OF THE CURRENT TREE on every run; the iteration order is a symbolic "
       "permutation of two visited elements with distinct symbolic keys, and the obligation is that no feasible path emits to a sequence, "
       "writer or record tracker that outlives the loop in both visits (otherwise the two orders give two different outputs). Sites that "
       "only feed console / plain-text lines (the property's own tolerance) are listed with that reason; one of them is the analysis' "
       "twin and must be flagged. A candidate is a VIOLATION only if the real CLI, run 8 times in fresh processes on multi-rule inputs "
       "(validate --structured json/yaml/sarif/junit, validate -o json/yaml, --verbose --print-json, parse-tree, test -o json/yaml/junit), "
       "prints two different byte strings (time fields masked). Found that way: `test -o json|yaml|junit` listed rules in hash order "
       "(genuine defect, fixed).",
  note="This decides the hash-order part of C05 for structured output only. Assumptions that are part of the claim: A1 report_at_least_one's "
       "by-lhs map has one key (its only caller passes one scalar left-hand value); A2 TestExpectations is never serialised to an output; A3 "
       "DataOutput (legacy GenericReporter::report renderer) is not reachable from any command; Metadata maps are empty (re-checked on MIR: "
       "no insert on HashMap<String,String>). NOT covered: console / plain-text output (tolerated order differences are not distinguished "
       "from others), dependence on environment variables, the clock and earlier evaluations in the same process (C12 covers the scopes), "
       "iteration hidden inside dependencies (serde_yaml / indexmap are order-preserving), exit codes (order-free folds: C06). No Kani "
       "harness serves this property (a HashMap with symbolic keys does not terminate under CBMC)."
       "Added later: every static / thread_local item of the crate is enumerated from the MIR of the current tree; none may be writable after its one-time initialisation (no static mut, no thread_local, no interior mutability inside a static). Degenerate solver part (a finite table), stated as an obligation so the evidence lists the sites; replayed by an isolation battery (two documents of equal shape, one compliant, one not, all built-ins)."
       "Added later: every call that reads an environment variable, the local time zone, a clock or a random source is enumerated (only now() and the elapsed-time stamps are allowed); TZ / LANG / HOME replay."
       " Added last: colour decisions - the functions that format a ColoredString through its own Display (which consults CLICOLOR / NO_COLOR / isatty) are enumerated from MIR and must be console reporters / stderr messages only; replay runs every structured format of validate and test under CLICOLOR_FORCE / NO_COLOR / CLICOLOR=0."
       " Console content: the ReadCursor behind the `Code:` snippets (shared per data file, driven in hash order) answers independently of its seek history - one inductive step of seek_line / next from an arbitrary cursor state (defect D19 found and fixed: wrong line numbers / missing snippets with three or more failing resources).",
  design="0b/C05"),
 "C06": dict(
  text="Bounded model checking of the two pure exit-code kernels: commands::test::get_exit_code folded over any sequence of <= 4 "
       "per-file codes is max-by-severity (1 > 7 > 0) and never reaches unreachable!(); reporters::test::get_status_result decides "
       "'expectation met' exactly by the documented rule for 1..3 definitions. Cross-checked by a MIR->SMT-LIB translation of "
       "get_exit_code decided by z3 and cvc5. validate's per-rules-file logic is decided on MIR (bounded symbolic execution, callees "
       "modelled): evaluate_against_data_input returns FAIL iff some data file's evaluation was FAIL (<=2 data files), evaluate_rule "
       "maps parse error -> 5, FAIL -> 19, else 0; the loop of Validate::execute over rules files (both the file and the --payload "
       "call site) preserves, step by step from an arbitrary state, the invariant [exit code 0 iff nothing failed or errored; 19 if only "
       "FAILs were seen; 5 if only parse errors were seen]; the --structured json/yaml/sarif reporter returns 19 iff some (document, rules "
       "file) evaluation was FAIL and otherwise the code carried in; JunitReporter::update_exit_code is error > failure > success for all "
       "i32 pairs; get_test_case marks a case Pass/Skip/Fail exactly by status; the JUnit per-pair closure counts failures / errors / tests "
       "exactly by the case mark and JunitReporter::report turns the totals into update_exit_code(ERROR | FAILURE | nothing); the "
       "--structured parse closure sets the exit code to 5 on a parse error and leaves that file out; `test`'s plain reporter exits 0 / 7 / 1 "
       "by mismatches / unreadable files.",
  note="Also decided: TestResult::get_exit_code of the structured `test` reporter (error file -> error code; failure code iff some case has a non-empty failed_rules list). NOT covered: --dir mode beyond get_exit_code, files/stdin/clap, main()."
       "Added later: both structured `test` handlers hand get_exit_code only values from {0, 1, 7}; the exit-code replay also has a rules file whose EVALUATION is an error (never 0, never 19) and a comment-only rules file.",
  design="4/C06"),
 "C07": dict(
  text="Wiring of the verdict through every rendering path, decided on MIR (callees modelled, value identities tracked; z3+cvc5): "
       "evaluate_against_data_input with verbose / print_json / the summary selection / the output format ALL symbolic (<=2 documents): "
       "whatever the flags, each document is evaluated once and its reporter receives exactly that evaluation's status, the record tree "
       "of that evaluation's scope and the requested format; --verbose / --print-json render that same tree; the returned status is FAIL "
       "iff some evaluation was FAIL. The console reporter chain (SummaryTable -> CfnAware -> TfAware -> GenericSummary, and the two "
       "delegating closures): every link builds its report with simplified_json_from_root from the record tree it received (the same "
       "builder as the structured reporter, decided under C09) and serialises exactly that report; delegation passes writer, status, "
       "record tree, names and format unchanged; the summary table files every RuleCheck child under the header of its own status with "
       "its own name and shows the status it received. validate_and_return_json (library API / Lambda / FFI): parsed rules and converted "
       "document are evaluated once in a scope built from exactly them, the JSON report comes from that evaluation's status and record "
       "tree through the generic reporter, verbose returns that same tree. Plus the obligations shared with C06 / C12: the --structured "
       "reporter's pairs and exit code, the JUnit case marks by status, the step invariant of Validate::execute for both the file and "
       "the --payload call site.",
  note="This decides that all renderings and entry points draw on ONE evaluation result and ONE report builder; it does NOT decide the "
       "well-formedness of the emitted JSON / YAML / XML / SARIF text (serde_json, serde_yaml, quick-xml are outside the encoding), the "
       "SARIF result list, stdin handling, clap. Known discrepancy on this tree (recorded as the C09 known finding, not re-raised here): "
       "for a rule NAME defined several times the console summary table drops SKIP when another definition passed or failed, the "
       "structured report lists the name under both. No Kani harness serves this property."
       "Added later: the SARIF fold pushes exactly one result per message of a failing check ((0, 0) when the message has no location - never dropped); sarif-vs-json replay; the per-rules-file exit-code fold obligations of C06 also run here."
       " Added last: JUnit escaping sites (every attribute reaches quick-xml as (&str, &str), every text / element through an escaping constructor - enumerated from MIR, with a replay on paths / messages / test names containing & < > quotes, marks compared with -o json); SARIF per-file step (what a data file contributes does not depend on the files before it)."
       " Library entry: the String returned is the writer's complete contents (defect D18 found and fixed: BufWriter::buffer() returned only the unflushed tail, reports above 8 KiB came back truncated).",
  design="0b/C07"),
 "C08": dict(
  text="Panic-freedom (Kani's panic/overflow/bounds/unwrap checks) of every harnessed kernel for all inputs in its bound, in particular "
       "substring byte slicing on multi-byte strings, the 100-byte preview slice of build_data_file on malformed non-ASCII data, "
       "list-index magnitude for every i32 incl. i32::MIN (both traversal engines), unreachable!() sites in get_exit_code / "
       "eval_guard_named_clause / the clause evaluator's unary path, error propagation of the CNF combinator. Plus MIR-level searches "
       "(z3+cvc5; havoc mode, directed CFG paths) for failing arithmetic-overflow / negate asserts in emit_code, retrieve_index and "
       "query_retrieval_with_converter, and for out-of-bounds `v[i]` in operators::contained_in, EqOperation::compare and "
       "each_lhs_compare and in the argument lists of the substring / join / regex_replace built-ins (len / is_empty / index modelled per "
       "value; arity assumed as checked by the parser), and for `unwrap()` on the fallible parameter merge of the --structured path and on template content in rulegen's gen_rules, and for the `unreachable!()` of the keys-filter arm (the comparison behind it "
       "never answers with another kind of result); "
       "every candidate is replayed through the real CLI. Eight genuine C08 defects were found this way and fixed "
       "(known_findings.json: fixed).",
  note="NOT covered: arbitrary bytes through the nom parser and libyaml, recursion depth, the report builder's unreachable!()s, "
       "operators.rs match_value. K14 stubs values::read_from (forced to fail) and str::trim (identity)."
       "Added later: get_exit_code's match ends in unreachable!(): at both call sites (<= 2 rules files) accumulator and per-file code are one of its three codes."
       "Added later: SliceDisplay::fmt as an index site (empty lists); record_unary_clause never records a Literal + the report builder is total on unary records (D14); Loader::load requests no event after the stream end (D17); handle_sequence_end."
       " Added last: short_form_to_long's unreachable!() arm - every member of SINGLE_VALUE_FUNC_REF u SEQUENCE_VALUE_FUNC_REF is a key of SHORT_FORM_TO_LONG_MAPPING (tables read off their lazy_static initialisers, decided over a String symbol; the model is the tag that panics).",
  design="4/C08"),
 "C09": dict(
  text="Bounded model checking of the combination rule: FileReport::combine / Status::and over up to 4 parts give FAIL iff some "
       "part FAIL, PASS iff none FAIL and some PASS, else SKIP, independent of order; no 'Incompatible to merge' panic for equal names. "
       "The partition is decided on the MIR of simplified_json_from_root (<=2 rule records, z3+cvc5): a rule name goes to `compliant` iff "
       "its RuleCheck status is PASS, to `not_applicable` iff SKIP, to neither for FAIL; the two sets are distinct; the report status is "
       "the FileCheck status; not_compliant is built from the same child records.",
  note="Also decided (MIR, z3+cvc5): eval_rules_file writes its records by evaluating every rule through eval_rule exactly once per "
       "iteration - the precondition for every rule to appear in the report (a rule served from the status cache writes no RuleCheck "
       "record). The report builder report_all_failed_clauses_for_rules is decided over one record (children's reports arbitrary): a "
       "FAIL rule record always yields exactly one Rule entry with that rule's name (also when no individual check can be shown), a PASS / "
       "SKIP rule record yields nothing, and NOTHING is listed for any record whose own status is PASS or SKIP (all status-carrying record "
       "kinds: file, rule, conditions, type / when / block / disjunction / clause-block checks, unary / comparison / in clause checks). "
       "FileReport::combine adds each of the other report's three lists whole to the list of the same name (union, independent "
       "of order) and folds the status with Status::and. NOT covered: the text of the messages and the per-shape content of each clause "
       "report, the serialised JSON. KNOWN FINDING (recorded, not repaired): a rule NAME defined several times with different statuses is "
       "listed in more than one of the three lists."
       "Added later: the report builder's clause reports show the visited record's own from / to values and operator pair; binary_operation records the left / right value of the outcome being reported; the partition replay checks the status implied by the three sets (the property's own sentence) also for rule names defined twice."
       "Added later: a keys filter's per-key comparisons are recorded under a Filter record (D13, fixed); binary records carry the clause's own messages."
       " Added last: every Unary record carries the clause's captured message (record_unary_clause's closure takes nothing from and stores nothing into its captures between values); replay with several failing values per clause.",
  design="4/C09"),
 "C10": dict(
  text="Bounded symbolic execution (MIR, callees modelled, value identities tracked; z3+cvc5) of the loader -> evaluator conversion "
       "`TryFrom<(MarkedValue, Path)> for PathAwareValue` (lists / maps of <= 2 entries): a scalar keeps its payload and its path "
       "carries its own source location (attached by the scalar arm or handed down by the enclosing arm); the i-th list element is "
       "converted under `path/i` with i its 0-based position, results appended in order; a map entry's value is converted under "
       "`path/<its key>` and stored under that key, the key record carries the key's own location; the map carries the map's location; "
       "a BadValue or a failing recursive conversion is an error; build_data_file hands the loader the file's FULL text (not a trimmed "
       "copy), so marks are positions in the file; in the query dispatcher a key taken from a variable that is not found in a map "
       "is reported as unresolved AT THAT MAP (traversed_to = the map).",
  note="Plus Kani/CBMC on the pointer string itself: Path::extend_str on pointers of 0..2 bytes and keys of 0..2 bytes (symbolic "
       "ASCII, any line/col) returns pointer + '/' + key byte for byte - also for the EMPTY key - and keeps the position; "
       "with_location replaces the position and keeps the pointer; extend_usize renders every index < 100 in decimal (and, on MIR, always "
       "appends exactly one segment produced by the standard integer formatting). This is the path/position ATTACHMENT step only. NOT covered: "
       "longer / non-ASCII keys, indices >= 100, libyaml marks -> Location, that comparison results and the report builder keep "
       "the values' paths (operators.rs clones, eval_context.rs report builder), unresolved `traversed_to` / `remaining_query`. No Kani "
       "harness serves this property in the quick tier."
       "Added later: Loader::handle_scalar_event attaches the scalar's own location (the C11 typing obligation, now also run here, with a YAML replay over every scalar style); clause reports / records keep the outcome's own values (see C09)."
       "Added later: system_mark_to_location copies libyaml's line / column unchanged and Parser::next returns the START mark of the event it converted."
       "Added later: accumulate / accumulate_map / retrieve_index obligations of C01 also run here (what is reported as the value reached)."
       " Added last: the {path, value} pairs of reports - scalars are rendered from their own payload by the lossless constructor of their kind (Number::from(i64) / Number::from_f64), no cast or rounding; replay resolves every reported pair of numbers of every size class in the document.",
  design="0b/C10"),
 "C11": dict(
  text="Bounded symbolic execution (MIR; std parsers modelled as fallible calls; z3+cvc5) of the loader's scalar typing: "
       "Loader::handle_scalar_event - an untagged scalar that is not plain (quoted / block) is always a String; an untagged plain scalar "
       "is Int iff it parses as i64, else Float iff it parses as f64, else Bool iff it parses as bool, else Null iff it is `~` / `null` "
       "in any case, else String; the typed value is the parser's result, carries the scalar's own location, and exactly one value is "
       "pushed; handle_type_ref - !!bool / !!int / !!float / !!null give the parsed value, an unparsable !!int / !!float is a BadValue "
       "(rejected), any other tag a String. The other two loaders (serde_yaml / serde_json -> Value, used by `test` and run_checks), number arm, "
       "with serde's is_i64 / is_u64 / as_* modelled by their contracts over mathematical integers: Int(v) only for an integer that fits "
       "i64 and with exactly that value, an i64 integer never becomes a Float, no unwrap on None (found: unsigned numbers above i64::MAX "
       "wrapped to negative Ints; fixed). Loader agreement on short forms: with a tag's membership in the two tables symbolic, the "
       "validate loader expands a scalar payload, and a sequence payload, under exactly the condition under which the serde loader "
       "expands any payload (found: it did not - `!Ref [a]`, `!Join s`; fixed).",
  note="This is the typing cascade of the validate loader plus the number arm of the serde loaders. NOT covered: what str::parse::<i64|f64|bool> accept (e.g. `inf`, `nan`, "
       "`+1` are accepted by Rust's parsers), agreement with serde_yaml / serde_json used by `test` and the library API, the content "
       "of the short-form intrinsic tables beyond their shape (every short tag maps to an `Fn::`/`Ref` long form, sequence vs single-value "
       "sets disjoint), aliases and non-string keys, key/list order, libyaml itself. No Kani harness serves this property."
       "Added later: at the libyaml boundary the scalar's bytes are from_raw_parts(scalar.value, scalar.length) of the same event (not a C-string reading); replay with embedded NUL characters through validate and test."
       "Added later: handle_sequence_end closes every sequence - also an empty one - the same way (short-form tag folding); the MarkedValue conversion obligation of C10 also runs here."
       " Added last: every-known-tag-has-a-long-form (see C08)."
       " Added last: build_data_file hands the loader the file's FULL text (C10's obligation) also runs here; replay with block scalars at the end of the file.",
  design="0b/C11"),
 "C12": dict(
  text="Bounded symbolic execution (MIR, callees modelled, value identities tracked; z3+cvc5) of the three validate loops that pair "
       "rules files with documents - CommonStructuredReporter::report (<=2 documents x <=2 rules files), get_test_case (JUnit path), "
       "evaluate_against_data_input (plain mode, <=2 documents) - and of `test`'s get_by_result and StructuredTestReporter::evaluate (one scope per test case, <=2 files x <=2 cases; the case's "
       "expectations are looked up in THAT case's table): every pair is evaluated exactly once, in a scope that root_scope "
       "built from exactly that rules file and that document; the scope handed to eval_rules_file is the one created for the pair and "
       "is never reused; the evaluation is labelled with that document's name; each pair's report is the one combined into the "
       "document's report, and combining is a list-wise union that does not depend on the order.",
  note="This decides the wiring of the loops (which values reach root_scope / eval_rules_file), i.e. that no evaluation state object is "
       "shared between pairs; it does NOT decide that RootScope holds all mutable state, directory walking / ordering (-a / -m), "
       "the content of merged input parameters (wiring of the merge is under C17). No Kani harness serves this property."
       "Added later: the process-wide-state enumeration of C05 (nothing outlives one evaluation's scope) with its isolation battery."
       "Added later: the per-rules-file exit-code fold (`the run reports failure iff some pair does`) and the hash-order obligations of C05 also run here; per-<testsuite> replay for junit."
       " Added last: SARIF per-file step (one SarifResults::from((check, report.name)) handed unchanged to extend_results, no other call, no other capture) with a replay on copies of one data file in several orders."
       " Added last: every --rules file collected is evaluated - Validate::execute only creates and pushes onto its lists of paths (site enumeration), get_rule_info's fold keeps every file it read (no comparison with the files already collected); replay with rules files of the same base name in different directories.",
  design="0b/C12"),
 "C13": dict(
  text="Bounded model checking of the comparison kernel: for ALL pairs of i64, ALL pairs of f64 (NaN => not comparable, -0.0 == 0.0), "
       "all pairs of chars, bools, null and all strings up to 2 (thorough: 3) characters: exactly one of <,==,> ; <= and >= decompose; "
       "numeric / code-point lexicographic order; == reflexive and symmetric through both entry points (compare_eq, PartialEq); range "
       "membership for all bounds and all 256 inclusive-bit patterns == the two bound comparisons; values of different kinds (15 "
       "unordered pairs of kinds, payload symbolic) never satisfy any operator and are reported NotComparable; ordering operators "
       "never hold on bools or on value-vs-range.",
  note="Clause level (MIR, z3+cvc5): NotComparable outcomes are reported FAIL by binary_operation and stay NotComparable under the "
       "operator-level `not` (flip table); each of < <= > >= is dispatched to its own comparison function; match_value classifies "
       "Ok(true)/Ok(false)/NotComparable correctly and CommonOperator compares every left x right pair as (left, right); contained_in's "
       "five cases (list in list-of-lists / list / non-list, scalar in list / scalar); EqOperation and InOperation always pair a value of "
       "the left operand set with one of the right operand set, with compare_eq; compare_eq on two lists / two maps of <= 2 entries (member "
       "comparison arbitrary): lists are equal iff same length and pairwise equal in order, maps iff same size and every left key is present "
       "on the right with an equal value; member errors are passed on. NOT covered: regex matching (engine stubbed out), deeper nesting than "
       "one level per obligation (each level is the same obligation), collections longer than the unroll bound."
       "Added later: MapValue == MapValue is exactly IndexMap::eq of the two value tables (order-free by indexmap's contract); PathAwareValue == PathAwareValue dispatches per pair of kinds (12 x 12 minus String/Regex) to the stated callee on the operands in order and returns its answer unchanged.",
  design="4/C13"),
 "C14": dict(
  text="The part of the parser that engine B can read (MIR of the crate's own parser functions; every nom combinator application - tag, "
       "alt, value, opt, preceded, cut .. - is an opaque call whose result is an arbitrary parse result; z3+cvc5): (a) the 17 keyword "
       "parsers (in, exists, empty, keys, is_list / is_struct / is_string / is_bool / is_int / is_float / is_null, when, some, this, or, not, "
       "let / assignment sign) each offer exactly the documented spellings - lower / upper case, `not` also `!`, `or` also `|OR|`, `=` and "
       "`:=` - and map all of them to one token, so the spellings cannot differ in meaning; (b) the access-clause builder stores negation = "
       "'a prefix not was parsed' and the query / (operator, operator-level not) pair exactly as parsed; (c) the type-block parser stores "
       "`AWS::X::Y { .. }` as the query Resources . * [ Type == 'AWS::X::Y' ] (key, all values, one un-named filter with the single un-negated "
       "all-values clause `Type == <the block's own type name>`); (d) string literals: one worker parameterised by the delimiter - opening quote, "
       "scan stop, closing quote and the restoration of an escaped quote all use the ONE delimiter given, text is kept verbatim, and the "
       "worker is offered once per quote character. At evaluation level: the type-block fold and the query-block fold are both the "
       "documented one (so a type block and its filter spelling evaluate alike), `this` continues with the same value, `.n` on a list is "
       "the `[n]` lookup. "
       "Candidates are replayed by loading the same rules file in two documented spellings (19 pairs, incl. comments / blank lines, quotes, "
       "`.1` vs `[1]`, `this.`, type block vs filter, implicit default rule) and comparing statuses and exit codes.",
  note="NOT decided (they live inside nom, which CBMC cannot run even on 2 symbolic bytes and whose closures engine B treats as opaque): "
       "indentation, blank lines, trailing spaces, line breaks inside lists / filters, comments, `.n` vs `[n]` at parse level, the implicit "
       "default rule. These appear only in the native replay battery, i.e. they are exercised when some obligation "
       "is refuted, not decided by a solver. No Kani harness serves this property."
       "Added later: `.n` and `[n]` - the two conversion closures run on ONE shared symbolic i64 literal (second executor's symbols renamed apart, casts with exact wrap-around) build the same QueryPart::Index for every literal; 28 spelling pairs in the native replay, incl. literals >= 2^31."
       "Added later: rules_file files every top-level line as ONE conjunction entry of the implicit default rule (its `or` alternatives together)."
       "Added later: comment2's wiring (delimited('#', take_till(c == newline), multispace0)); comment-at-end-of-file spelling pairs."
       " Added last: layout skippers - the functions that hand a bare whitespace skipper (no comments) to a combinator are the stated table; or_join is comment-aware on both sides; five comment-before-`or` spelling pairs."
       " Added last: keyword case symmetry - a parser function that recognises one spelling of a documented keyword by tag() recognises all of them, and only the keyword's own parser spells it (site enumeration); upper-case WHEN on type blocks in the spelling pairs.",
  design="0b/C14"),
 "C15": dict(
  text="Bounded symbolic execution (MIR, callees modelled, value identities tracked; z3+cvc5) of the resolution machinery: "
       "BlockScope::resolve_variable and RootScope::resolve_variable look a name up under that name in their own literal, cache, function "
       "and query tables; the enclosing scope is asked only when none of them defines it (inner definitions shadow outer ones), with the "
       "same name, and its answer is passed on unchanged; a query variable is evaluated from position 0 against THIS scope's root value "
       "with this scope as resolver; what is stored in a scope's cache is exactly what is returned (first reference == later references); "
       "eval_parameterized_rule_call (<=2 arguments): arity mismatch or a failing argument is an error, the k-th argument is bound to the "
       "k-th parameter name, the called rule is evaluated once in a context holding exactly these bindings on top of the caller's, and "
       "its status is returned unchanged; the context of a parameterised call resolves a parameter name to its bound values and "
       "everything else through the caller's scope; a query whose head is a variable resolves it through the scope and continues every "
       "value at the next position.",
  note="This decides the wiring of variable and parameter resolution, not program equivalence: that a program and its abstracted form "
       "give the same verdict additionally needs query traversal, block_scope construction (extract_variables) and the parser's "
       "`[*]` insertion after a leading variable, none of which is examined. The `%var empty` exception is covered under C01/C03 "
       "(k8v harnesses). No Kani harness serves this property."
       "Added later: scope discipline (which scope guards, bodies and per-value blocks run in; a guarded block's own lets are not visible to its guard), scope delegations, and resolve_function (arguments of built-in calls evaluated in the scope given)."
       "Added later: extract_variables / block_scope / root_scope (every let under its own name in the table of its kind; cache starts empty), literal and cached answers of resolve_variable, and the exact condition under which `empty` reads the result set."
       " Added last: what a parameterised call binds (a literal as ONE entry holding it, never spread; a query / call as answered) and the KIND of that entry (Literal, as for `let`): the latter is KNOWN FINDING KF4 on the pinned tree (bound as Resolved: same(a, [1]) FAILs where a == [1] PASSes) - printed as KNOWN-FINDING, exit 0.",
  design="0b/C15"),
 "C16": dict(
  text="Bounded model checking of the expectation-matching kernel get_status_result (1..3 definitions x all statuses x all expectations: "
       "met iff some definition has the expected non-SKIP status, or all are SKIP when SKIP is expected; returned status = expected) and "
       "of the per-file exit fold get_exit_code. On MIR (z3+cvc5): GenericReporter::report (<=2 test files x <=2 cases: exit 0 iff every "
       "file was readable and no case has a FAIL group, 7 if only mismatches, 1 if only unreadable files) and get_by_result (one evaluation "
       "per case in a fresh scope built from the rules file and the case's input; a rule without a stated expectation is counted neither "
       "as met nor as failed; met -> PASS group, else FAIL group), get_by_rules' fold step (a RuleCheck record is appended to the group of its own name, other "
       "records change nothing) and StructuredTestReporter::evaluate (fresh scope per case; no expectation -> skipped_rules only; "
       "get_status_result(expected, this rule's records) decides passed_rules / failed_rules with the right statuses); the number arm of the "
       "serde_yaml / serde_json loaders that feed `test` (Int only with the exact i64 value - see C11) and their agreement with the validate loader on short-form tags.",
  note="NOT covered: that `test` and `validate` compute the same statuses (two loaders + the evaluator), `--dir` mode, the rendering of "
       "the four output formats."
       "Added later: every rule recorded by the structured test reporter is an entry of get_by_rules' OWN result (a loop over a re-keyed or filtered copy refutes the obligation); rule names differing only in letter case are in the native replay. This obligation had been vacuous for a while (see DESIGN 0.4) - a generic zero-count guard now makes such an obligation inconclusive."
       "Added later: build_test_suite's failure counter grows by number_of_failures() = len(failed_rules) per test case (renderings-agree replay: json / junit failure counts for 0..3 unmet expectations per case)."
       "Added later: get_test_data makes one test case per spec (fold over all specs); validate's scalar typing obligations also run here."
       " Added last: JUnit case marks (every passed rule one case marked Pass, every failed rule one marked Fail, under its own name); renderings replay now has unmet expectations on rules that evaluate to SKIP.",
  design="4/C16"),
 "C17": dict(
  text="PathAwareValue::merge decided twice: by Kani/CBMC on one-entry maps with symbolic integer values (equal keys: MultipleValues "
       "error even for equal values; map vs scalar: IncompatibleError; the disjoint-key success case exhausts CBMC's memory - IndexMap "
       "insertion - and is left to the MIR check) and on MIR "
       "(z3+cvc5, second map with <=2 entries, `contains_key` / the previous value returned by `insert` arbitrary): Ok only if NO key of "
       "the second map was already defined - whatever the values, including null - and then every entry is stored under its own key with "
       "its own value and listed in `keys`; a key defined twice is an Err; disjoint maps never give an Err. The --structured call site "
       "never unwraps a failing merge (found a panic there; fixed). Wiring (MIR): every document is evaluated as merge(parameters, "
       "document) in both the plain and the --structured path, and one step of the -i fold merges the next file into the accumulated "
       "parameters (an error stops the run).",
  note="NOT covered: reading the -i files, that `keys` and `values` stay aligned for `keys` "
       "filters beyond the per-entry push, list merging semantics (extend), equality of verdicts with the pre-merged document."
       "Added later: has_a_supported_extension is exactly `some extension is a suffix of the name` (callers hand it absolute paths for --data and base names for -i); replay over unusual parameter file names."
       "Added later: walk_dir is the unfiltered walkdir traversal of the base given (symlink replay)."
       " Added last: validate's evaluate_rule hands evaluate_against_data_input its own input parameters / data files / flags unchanged (no per-run decision to drop the parameters); replay with a list / scalar document next to a map document under -i.",
  design="0b/C17"),
 "C18": dict(
  text="Bounded model checking of the small built-ins: substring on strings of 0..3 bytes (thorough: 4) built from symbolic 1/2/3-byte "
       "characters with offsets ranging over ALL usize values (ASCII: exactly chars from..to when from<to<=len, otherwise skipped; any "
       "encoding: never panics, any result is the byte slice), element-wise skipping of non-string/unresolved members; count over "
       "0..3 entries of symbolic kind; parse_int / parse_char / parse_float on non-string inputs (value or error, never a wrong value). "
       "Dispatch is decided on MIR (z3+cvc5): FunctionName::call evaluates every built-in name with its own implementation on the unchanged "
       "argument lists, and each one-line wrapper (to_upper, to_lower, url_decode, json_parse, parse_*) applies exactly its documented "
       "function to its single argument list and returns that result; every element-wise built-in (url_decode, json_parse, "
       "regex_replace, substring, to_upper, to_lower, parse_*) visits every argument value, appends exactly one result per value in "
       "order, and builds a result only from that value, the fixed arguments and objects created while handling it (no state carried "
       "from one value to the next), for argument lists of <= 2 values; join over <= 3 members with arbitrary (also empty) contents appends "
       "member 0, delimiter, member 1, ... member n-1 - one delimiter between neighbours, none before the first or after the last.",
  note="NOT covered: the characters join produces (only the append sequence is decided; Kani covers 2 members), parse_bool/to_upper/to_lower "
       "(Unicode case tables reachable through heap-held kinds), url_decode, regex_replace, json_parse, parse_epoch, now, string "
       "parsing (`parse::<i64>` on symbolic bytes), dispatch/arity in the parser, results bound to variables."
       "Added later: resolve_function and its per-argument closure - a literal argument becomes [Literal(v)], a query argument is evaluated in the scope given, a nested call recursively; the function named is called on exactly the folded list; its present results are wrapped as Resolved values in order."
       "Added later: Kani k16_parse_int_float - parse_int on every finite float below 2^53 truncates toward zero."
       "Added later: the parser accepts a built-in call only with the declared number of arguments (function_expr), the precondition of the argument-index obligations of C08."
       "Added later: substring's offsets are its arguments, never wrapped (D15, fixed); to_lower / to_upper push std's Unicode conversion of an input.",
  design="4/C18"),
 "C19": dict(
  text="The part of rulegen that engine B can read (MIR; serde / HashMap / formatting calls modelled; z3+cvc5): print_rules hands the text it "
       "built, unchanged, to the crate's own rules_file parser and writes it (that very text, nothing added) ONLY on the path where the parser "
       "returned Ok, otherwise it reports an error - so what is emitted parses; per resource type it emits `let <v> = Resources.*[ Type == "
       "'<that type>' ]`, `rule <name> when %<v> !empty {` with <v> = <name>_resources, one clause per recorded property about that variable "
       "and that property (`IN [..]` iff more than one value was recorded, else `==`), and `}` - the five format templates are decoded from "
       "the MIR constants and compared with the documented ones, the holes are checked by value identity (<= 2 types x <= 2 properties); one "
       "gen_rules step never removes anything, ends in an insert for the property visited, and the text it records is the property value's own "
       "rendering (serde's to_string of that value, or the string it is), never a re-computed number; gen_rules never unwraps template "
       "content (C08).",
  note="NOT decided: that the emitted rules PASS on the template they came from. KNOWN FINDING (recorded, not repaired): they do not when "
       "resources of one type have different property sets - exhibited by an abstract two-Boolean obligation over the code facts above plus "
       "C01's 'unresolved = FAIL' (this one obligation is about a model of the round trip, not about one function's MIR) and replayed by "
       "rulegen + validate. Also not decided: what serde's to_string prints for a value, the quoting / newline stripping, serde's reading of the template, the name "
       "mangling (`::` -> `_`, lower case) beyond the call sequence. Kani harnesses: only the three comparison-kernel ones named below."
       "Added later: the template is read exactly once, by serde_yaml::from_str (a second, differently rounding reader tried first refutes it); long-float template in the replay; KF3 (rule names not injective)."
       " Added last: the validate loader's scalar typing cascade (C11) also runs here: the round trip needs validate to read a number wherever rulegen's serde reader read one."
       " Kani part (added last): the comparison kernel the generated `==` clauses rest on - compare_values on Int x Int (all pairs: equal iff the same integer) and Int x Float (never comparable, 1 vs 1.0 included) - runs here too (harnesses k1_int, k1x_int_float + vacuity twin), because `changing a value to one not present makes the rule FAIL` needs distinct numbers to compare unequal.",
  design="0b/C19"),
}

MIR_ONLY = {"C05", "C07", "C11", "C12", "C14", "C15"}

NA = {
}


def main():
    props = [json.loads(l)["id"] for l in open(os.path.join(V, "properties.jsonl"))]
    checks = []
    # batch 18 addenda (appended to the claim texts above)
    for _pid, _t in {
        "C06": " Command dispatch (MIR): CfnGuard::execute and Commands::execute call exactly the subcommand held, with the writer / reader given, and return that call's Result itself (exit code and Err unchanged).",
        "C07": " Command dispatch as in C06; the merged input parameters are handed to every evaluation call site of Validate::execute (paths and --payload, plain and --structured; found --payload without --structured ignoring them, fixed); ValidateBuilder::try_build (library entry) returns a Validate holding the builder's own value of every field.",
        "C17": " List arm of merge (MIR): the receiver's vector is extended exactly once by the second list's own vector, no other vector operation, result Ok(receiver). The merged parameters are handed to every evaluation call site of Validate::execute (one region per site; found `--payload` without `--structured` ignoring -i, fixed in /repo edb1517). ValidateBuilder::try_build hands input_params and every other field on unchanged (replayed through the library builder with data on STDIN).",
        "C19": " Kani k1_float (Float x Float, every bit pattern) also runs here: two floats compare equal only if IEEE-equal, so a changed float value makes the generated `==` clause FAIL.",
    }.items():
        if _t not in CLAIMS[_pid]["text"]:
            CLAIMS[_pid]["text"] += _t
    for pid in props:
        if pid not in CLAIMS:
            continue
        c = CLAIMS[pid]
        checks.append({
            "property_id": pid,
            "quick_cmd": f"./check {pid} --tier quick",
            "thorough_cmd": f"./check {pid} --tier thorough",
            "evidence_file": f"/verif/evidence/{pid}.json",
            "replay_cmd_template": f"./check {pid} --replay {{path}}",
            "engine": "mir-smt" if pid in MIR_ONLY else "kani-cbmc",
            "level_claimed": {"category": "model_checking", "text": c["text"], "design_ref": "DESIGN.md section " + c["design"]},
            "level_note": TB + c["note"],
            "technique": ("bounded path-by-path symbolic execution of the crate's MIR (regenerated from the current tree) to SMT-LIB, decided by z3 and cvc5; candidates replayed through the real CLI"
                          if pid in MIR_ONLY else
                          "bounded symbolic execution of the real Rust code: Kani 0.68 / CBMC 6.11 (SAT, CaDiCaL) on the compiled crate + path-by-path symbolic execution of the crate's MIR to SMT-LIB decided by z3 and cvc5"),
        })
    na = [{"property_id": p, "reason": NA[p]} for p in props if p not in CLAIMS]
    assert set(props) == set(CLAIMS) | set(NA)
    m = {
        "version": 1,
        "setup_cmd": "./setup.sh",
        "hooks": {
            "guard": "kani",
            "enable": "no source hooks: harnesses live in /verif/harness and are injected as #[cfg(kani)] child modules into a scratch copy of /repo's working tree on every run (cfg `kani` is set by cargo-kani itself)",
            "baseline_off_cmd": "cd /repo && cargo test --workspace --no-fail-fast --offline",
            "source_commits": [],
            "add_only": True,
        },
        "engines": [
            {"name": "kani-cbmc", "path": "/verif/check", "serves_properties": sorted(set(CLAIMS) - MIR_ONLY),
             "kind_free_text": "Kani 0.68 (rustc MIR -> goto-program) + CBMC 6.11 (symbolic execution, bit-blasting, CaDiCaL) over the real cfn-guard crate; counterexamples replayed natively with cargo kani playback"},
            {"name": "mir-smt", "path": "/verif/lib/mirsmt.py", "serves_properties": ["C01", "C02", "C03", "C04", "C05", "C06", "C07", "C08", "C09", "C10", "C11", "C12", "C13", "C14", "C15", "C16", "C17", "C18", "C19"],
             "kind_free_text": "nightly -Zunpretty=mir dump of the current tree; lib/mirsmt.py (loop-free kernels, havoc-mode overflow/negate site search), lib/mirexec.py (bounded path enumeration with call models, loop unrolling, value identities) and lib/miragg.py / mirblocks.py / mirflow.py / mirpaths.py / mirload.py / mirquery.py / mirorder.py (aggregation, memoisation, index, negation-flow, block, operator-layer, wiring and exit-code obligations) emit SMT-LIB2 decided by z3 4.8.12 and cvc5 1.0 (must agree); candidates are replayed through the real CLI built from the scratch copy"},
        ],
        "checks": checks,
        "notes": "Solver-based checking only (see DESIGN.md). exit 0 = held within the stated bounds; exit 1 + VIOLATION line = natively reproduced counterexample; exit 2 = inconclusive (timeout, OOM, harness no longer compiles, vacuous harness, non-reproducing counterexample) - never reported as success. Genuine defects found and fixed: known_findings.json.",
        "not_applicable": na,
    }
    json.dump(m, open(os.path.join(V, "MANIFEST.json"), "w"), indent=1)
    print("MANIFEST.json written:", len(checks), "checks,", len(na), "not applicable")


if __name__ == "__main__":
    main()
