#!/usr/bin/env python3
"""record_sweep.py <sweep.out>: writes detected_by into seeded/*/meta.json from the output of a seed sweep
(tools/run_seed.sh per seed) and prints the markdown table used in DESIGN.md."""
import json, os, re, sys
V = os.path.dirname(os.path.dirname(os.path.abspath(__file__)))
rows = []
for line in open(sys.argv[1]):
    m = re.match(r"^(C\d\d-\w) wall=(\d+)s :: seed=\S+ property=(C\d\d) tier=(\w+) exit=(\d+)(.*)$", line.strip())
    if not m:
        continue
    sid, wall, prop, tier, rc, rest = m.groups()
    mp = os.path.join(V, "seeded", sid, "meta.json")
    meta = json.load(open(mp))
    out = os.path.join(V, ".cache", "seedruns", sid)
    who = []
    ev = os.path.join(out, f"{prop}.json")
    if os.path.exists(ev):
        e = json.load(open(ev))
        for s in e["coverage"]["samples"]:
            if s.get("harness") and s.get("verdict") == "FAILED" and s.get("expect") == "pass":
                who.append("kani:" + s["harness"])
        smt = e["coverage"].get("mir_smt_crosscheck") or {}
        for f in smt.get("failures", []) or []:
            who.append("mir:" + f["obligation"] + ("" if f.get("reproduced") else " (not reproduced)"))
    verdict = {"1": "VIOLATION (exit 1, natively replayed)", "0": "MISSED (exit 0)", "2": "inconclusive (exit 2)"}.get(rc, "exit " + rc)
    meta["detected_by"] = {"tier": tier, "exit": int(rc), "verdict": verdict, "checks": who, "wall_s": int(wall)} if rc != "0" else None
    meta["what_was_run"] = f"tools/run_seed.sh {sid} {tier}  (= ./check {prop} --tier {tier} against a scratch worktree of /repo HEAD with the patch applied)"
    json.dump(meta, open(mp, "w"), indent=1)
    rows.append((sid, prop, verdict, ", ".join(who) or "-", wall))
print("| seed | property | result of `./check` (quick) | failing checks | wall s |")
print("|---|---|---|---|---|")
for r in sorted(rows):
    print("| " + " | ".join(r) + " |")
