#!/bin/bash
# verify_seed.sh <src_out_dir> <tag> : confirm a seeded change independently in a fresh scratch worktree:
# patch applies, workspace builds, existing test suite passes, demo fails with / passes without the patch.
set -u
OUT=$1; TAG=$2
W=/tmp/vs_$TAG
LOG=/tmp/vs_$TAG.log
exec >$LOG 2>&1
git -C /repo worktree remove --force $W 2>/dev/null
git -C /repo worktree add -q --detach $W HEAD || exit 9
cd $W
export CARGO_NET_OFFLINE=true
git apply $OUT/patch.diff || { echo "RESULT patch-does-not-apply"; exit 1; }
cargo build --offline -p cfn-guard 2>&1 | tail -3
echo "== demo with patch"
bash $OUT/demo.sh $W > demo_with.log 2>&1; echo "demo_with_rc=$?"
tail -5 demo_with.log
echo "== test suite with patch"
HOME=/tmp CARGO_HOME=/root/.cargo RUSTUP_HOME=/root/.rustup cargo test --workspace --no-fail-fast --offline 2>&1 | grep -E "^test result|^test .* FAILED$" | sort | uniq -c | tail -20
echo "== demo without patch"
git apply -R $OUT/patch.diff
bash $OUT/demo.sh $W > demo_without.log 2>&1; echo "demo_without_rc=$?"
tail -3 demo_without.log
cd /; git -C /repo worktree remove --force $W
echo "RESULT done"
