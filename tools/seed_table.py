#!/usr/bin/env python3
"""seed_table.py: the DESIGN.md table of seeded changes, from seeded/*/meta.json (detected_by is written by record_sweep.py).
`python3 tools/seed_table.py --write` replaces the block between the SEED_TABLE markers in DESIGN.md."""
import json, os, re, sys, glob
V = os.path.dirname(os.path.dirname(os.path.abspath(__file__)))
KNOWN = {"mir:simplified_json_from_root/one-bucket-per-name", "mir:rulegen/generated-rule-holds-on-its-source",
         "mir:rulegen/distinct-types-distinct-rule-names",
         "mir:eval_parameterized_rule_call/literal-argument-bound-as-a-literal"}      # recorded known finding, present on the unchanged tree
RETIRED = {"C11-c", "C02-i"}        # neutralised by a later fix: kept for the record
NOTES = json.load(open(os.path.join(V, "seeded", "notes.json"))) if os.path.exists(os.path.join(V, "seeded", "notes.json")) else {}
rows = []
for mp in sorted(glob.glob(os.path.join(V, "seeded", "C*", "meta.json"))):
    m = json.load(open(mp))
    d = m.get("detected_by")
    what = m.get("needs_to_manifest", "")
    short = (what.split(":")[0][:90] if ":" in what[:100] else what[:90]).replace("|", "\\|")
    if d:
        checks = [c for c in d.get("checks", []) if c not in KNOWN]
        res = d["verdict"].split(" (")[0]
        rows.append((m["id"], short, res, ", ".join(checks)[:160] or "-", NOTES.get(m["id"], "")))
    elif m["id"] in RETIRED:
        rows.append((m["id"], short, "retired (superseded / neutralised by a fix)", "-", NOTES.get(m["id"], "")))
    else:
        rows.append((m["id"], short, "not run yet / MISSED", "-", NOTES.get(m["id"], "")))
out = ["| seed | where (from meta.json) | `./check <prop> --tier quick` | failing checks | when the catching check was written |", "|---|---|---|---|---|"]
out += ["| " + " | ".join(r) + " |" for r in rows]
txt = "\n".join(out)
if "--write" in sys.argv:
    p = os.path.join(V, "DESIGN.md")
    s = open(p).read()
    if "SEED_TABLE_PLACEHOLDER" in s:
        s = s.replace("SEED_TABLE_PLACEHOLDER", "<!-- SEED_TABLE_BEGIN -->\n" + txt + "\n<!-- SEED_TABLE_END -->")
    else:
        s = re.sub(r"<!-- SEED_TABLE_BEGIN -->.*?<!-- SEED_TABLE_END -->", lambda _m: "<!-- SEED_TABLE_BEGIN -->\n" + txt + "\n<!-- SEED_TABLE_END -->", s, flags=re.S)
    open(p, "w").write(s)
print(txt)
