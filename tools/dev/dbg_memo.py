import sys
sys.path.insert(0,'/verif/lib')
import mirsmt, mirexec, miragg
mir=open('/verif/.cache/mir/out.mir').read()
a=miragg.Agg(mir,'/repo',mirsmt.Obligations())
impl = r"(?:rules::)?eval_context::<impl at guard/src/rules/eval_context\.rs:\d+:\d+: \d+:\d+>::"
ex=a.exec(impl+"resolve_variable", {}, log=("insert","get","collect","filter","into_iter","query_retrieval"), unroll=1, first_arg_re=r"_1: &mut (?:eval_context::)?BlockScope")
for p in ex.paths:
    ins=miragg.calls(p,"insert")
    if ins:
        print([e[1] for e in p.events if e[0]=='call' and e[1] not in ('branch','from_residual')])
        for e in ins: print("   insert args:", e[2])
        print("   ret:", p.ret)
print("----")
p=[p for p in ex.paths if miragg.calls(p,"insert")][0]
for k in ['_22','_29','_31','_32','_33','_34','_2']:
    print(k, p.env.get(k))
for e in p.events:
    if e[0]=='call': print(e[1], e[2], '->', e[3])
