import sys, time, subprocess
sys.path.insert(0,'/verif/lib')
import mirsmt, miragg, mirflow, mirblocks
mir=open('/tmp/mir.txt').read()
src='/repo'
ob=mirsmt.Obligations(); a=miragg.Agg(mir,src,ob)
def dbg(name, ex, bad_terms, describe, witness=True):
    print(name, len(bad_terms), 'terms; paths', len(ex.paths))
    hdr="(set-logic ALL)\n"+"\n".join(ex.decls)+"\n"+"\n".join(f"(assert {s})" for s in ex.side)+"\n"
    script=hdr
    for i,b in enumerate(bad_terms):
        script+=f"(push)\n(assert {b})\n(check-sat)\n(pop)\n"
    p=subprocess.run(['/usr/bin/z3','-in'],input=script,stdout=subprocess.PIPE,text=True)
    res=p.stdout.split()
    sat=[i for i,r in enumerate(res) if r!='unsat']
    print('sat terms:',sat[:10], 'of', len(res))
    for i in sat[:int(sys.argv[2]) if len(sys.argv)>2 else 1]:
        print('--- term',i); print(bad_terms[i][:2500])
        pth=ex.paths[i] if len(ex.paths)==len(bad_terms) else None
        if pth:
            print(' outcome',pth.outcome,'ret',str(pth.ret)[:300])
            for e in pth.events:
                if e[0]=='call' and e[1] not in ('deref','branch','from_residual','must_use','clone'): print('    ',e[1],[str(x)[:70] for x in e[2]],'->',str(e[3])[:110])
    return None
a.discharge=dbg
f=getattr(mirflow,sys.argv[1],None) or getattr(mirblocks,sys.argv[1])
f(a)
