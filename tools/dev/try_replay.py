# run the native replay recipes of miragg against a tree (default /repo) - on a good tree none may "reproduce"
import sys
sys.path.insert(0,'/verif/lib')
import mirsmt, miragg, os, shutil
src=sys.argv[1] if len(sys.argv)>1 else '/repo'
work='/verif/.cache/replaytest'; shutil.rmtree(work+'/src',ignore_errors=True); os.makedirs(work,exist_ok=True)
shutil.copytree(src, work+'/src', ignore=shutil.ignore_patterns('target','.git'))
os.makedirs(work+'/src/.cargo',exist_ok=True)
open(work+'/src/.cargo/config.toml','w').write('[source.crates-io]\nreplace-with = "vendored-sources"\n[source.vendored-sources]\ndirectory = "/verif/.cache/vendor"\n[net]\noffline = true\n')
a=miragg.Agg(open('/verif/.cache/mir/out.mir').read(), work+'/src', mirsmt.Obligations())
print('rules_file', a.replay_rules_file({}))
print('when', a.replay_when_block({}))
print('data', a.replay_data_inputs({}, None))
