import sys, time, subprocess, importlib
sys.path.insert(0,'/verif/lib')
import mirsmt, miragg
mod=importlib.import_module(sys.argv[1]); fn=sys.argv[2]
mir=open('/tmp/mir.txt').read()
src='/verif/.cache/work/slot0/src'
ob=mirsmt.Obligations(); a=miragg.Agg(mir,src,ob)
def dbg(name, ex, bad_terms, describe, witness=True):
    print(name, len(bad_terms), 'terms; paths', len(ex.paths), 'cut', ex.cut)
    hdr="(set-logic ALL)\n"+"\n".join(ex.decls)+"\n"+"\n".join(f"(assert {s})" for s in ex.side)+"\n"
    script=hdr
    for i,b in enumerate(bad_terms):
        script+=f"(push)\n(assert {b})\n(check-sat)\n(pop)\n"
    p=subprocess.run(['/usr/bin/z3','-in'],input=script,stdout=subprocess.PIPE,text=True)
    res=p.stdout.split()
    sat=[i for i,r in enumerate(res) if r!='unsat']
    print('sat terms:',sat[:10], 'of', len(res))
    for i in sat[:int(sys.argv[3]) if len(sys.argv)>3 else 1]:
        print('--- term',i); print(bad_terms[i][:1500])
        pth=ex.paths[i] if len(ex.paths)==len(bad_terms) else None
        if pth:
            print(' outcome',pth.outcome,'ret',str(pth.ret)[:400])
            for e in pth.events:
                if e[0]=='call' and e[1] not in ('deref','branch','from_residual','must_use','clone'): print('    ',e[1],[str(x)[:90] for x in e[2]],'->',str(e[3])[:110])
    return None
a.discharge=dbg
getattr(mod,fn)(a)
