"""dbg_bad.py <check> : run a mirblocks/miragg check, and for a refuted obligation find the individual path terms that are satisfiable"""
import sys, time, subprocess
sys.path.insert(0,'/verif/lib')
import mirsmt, miragg, mirblocks
mir=open(sys.argv[2] if len(sys.argv)>2 else '/tmp/mir.txt').read()
src='/verif/.cache/work/slot0/src'
ob=mirsmt.Obligations(); a=miragg.Agg(mir,src,ob)
orig=a.discharge
def dbg(name, ex, bad_terms, describe):
    print(name, len(bad_terms), 'terms; paths', len(ex.paths))
    hdr="(set-logic ALL)\n"+"\n".join(ex.decls)+"\n"+"\n".join(f"(assert {s})" for s in ex.side)+"\n"
    script=hdr
    for i,b in enumerate(bad_terms):
        script+=f"(push)\n(assert {b})\n(check-sat)\n(pop)\n"
    p=subprocess.run(['/usr/bin/z3','-in'],input=script,stdout=subprocess.PIPE,text=True)
    res=p.stdout.split()
    sat=[i for i,r in enumerate(res) if r!='unsat']
    print('sat terms:',sat[:10], 'of', len(res))
    for i in sat[:2]:
        print('--- term',i); print(bad_terms[i][:3000])
    return None
a.discharge=dbg
f=getattr(mirblocks,sys.argv[1],None)
if f: f(a)
else: getattr(a,sys.argv[1])()
