import sys, time, json
sys.path.insert(0,'/verif/lib')
import mirsmt, miragg, mirflow
mir=open('/tmp/mir.txt').read()
src=sys.argv[2] if len(sys.argv)>2 else '/verif/.cache/work/slot0/src'
ob=mirsmt.Obligations(); a=miragg.Agg(mir,src,ob)
for name in sys.argv[1].split(','):
    t=time.time()
    getattr(mirflow,name)(a)
    for o in ob.items:
        print(name, o['obligation'], o['status'], o['verdicts'], round(time.time()-t,1), o.get('paths'), o.get('cut_by_unroll_bound'))
        if o['status'] not in('proved','witness-ok'): print((o.get("model") or "")[:800], o.get("solver_output"))
    ob.items.clear()
