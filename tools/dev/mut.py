"""mut.py <relfile> <old> <new> <check,check> : apply a textual source mutation to a scratch copy, re-dump MIR, run mirblocks/miragg checks"""
import sys, os, subprocess, time, shutil
sys.path.insert(0,'/verif/lib')
import mirsmt, miragg, mirblocks, mirflow, mirpaths, mirload, mirquery, mirorder, mirparse, mirgen
rel, old, new, checks = sys.argv[1:5]
base='/repo'
mut='/tmp/mutsrc'
subprocess.check_call(['rsync','-rlpc','--delete','--exclude','/target','--exclude','.git',base+'/',mut+'/'])
# pristine copy of the file from /repo
shutil.copy(os.path.join('/repo',rel), os.path.join(mut,rel))
t=open(os.path.join(mut,rel)).read()
assert t.count(old)>=1, "pattern not found"
n = int(os.environ.get('MUT_NTH','0'))
parts=t.split(old)
t=old.join(parts[:n+1])+new+old.join(parts[n+1:])
open(os.path.join(mut,rel),'w').write(t)
mir=mirsmt.dump_mir(mut)
ob=mirsmt.Obligations(); a=miragg.Agg(mir,mut,ob)
for name in checks.split(','):
    t0=time.time()
    f=getattr(mirblocks,name,None) or getattr(mirflow,name,None) or getattr(mirpaths,name,None) or getattr(mirload,name,None) or getattr(mirquery,name,None) or getattr(mirorder,name,None) or getattr(mirparse,name,None) or getattr(mirgen,name,None)
    try:
        if f: f(a)
        else: getattr(a,name)()
    except mirsmt.Untranslatable as e:
        print(name,'UNTRANSLATABLE',e); continue
    for o in ob.items:
        print(name, o['obligation'], o['status'], o['verdicts'], round(time.time()-t0,1), 'reproduced=',o.get('reproduced'))
        if o.get('replay'): print('   replay:', str(o['replay'].get('mismatches') or o['replay'])[:600])
    ob.items.clear()
