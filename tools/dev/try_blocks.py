import sys, time, json
sys.path.insert(0,'/verif/lib')
import mirsmt, miragg, mirblocks
mir=open('/tmp/mir.txt').read()
src=sys.argv[2] if len(sys.argv)>2 else '/verif/.cache/work/slot0/src'
ob=mirsmt.Obligations(); a=miragg.Agg(mir,src,ob)
for name in sys.argv[1].split(','):
    t=time.time()
    getattr(mirblocks,name)(a)
    o=ob.items[-1]
    print(name, o['obligation'], o['status'], o['verdicts'], round(time.time()-t,1), getattr(a,'cuts',{}).get(name))
    if o["status"]!="proved": print((o.get("model") or "")[:1500], o.get("solver_output"))
