import sys,re,json,time
sys.path.insert(0,'/verif/lib')
import mirsmt, mirexec, miragg
mir=open('/verif/.cache/mir/out.mir').read()
ob=mirsmt.Obligations()
a=miragg.Agg(mir,'/repo',ob)
a.cli=lambda: None
t=time.time()
for s in sys.argv[1:]:
    getattr(a,s)()
for o in ob.items: print(o['obligation'],o['status'],o['verdicts'],(o['model'] or '')[:300].replace('\n',' '))
print(a.npaths, time.time()-t)
