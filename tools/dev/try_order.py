import sys, time, json
sys.path.insert(0,'/verif/lib')
import mirsmt, miragg, mirorder
src=sys.argv[1] if len(sys.argv)>1 else '/repo'
mir=open(sys.argv[2]).read() if len(sys.argv)>2 else mirsmt.dump_mir(src)
ob=mirsmt.Obligations(); a=miragg.Agg(mir,src,ob)
t=time.time()
mirorder.order_independence(a)
for o in ob.items:
    print(o['obligation'], o['status'], o.get('verdicts'), o.get('paths'), 'reproduced=',o.get('reproduced'))
    if o['obligation']=='order/sites': print(json.dumps(a.order_report, indent=1)[:6000])
    if o.get('replay') and o.get('reproduced'): print('   replay:', json.dumps(o['replay'].get('mismatches'))[:700])
print('time', round(time.time()-t,1))
