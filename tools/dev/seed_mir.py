"""seed_mir.py <seed-id> <check,check>: apply a seeded patch to a scratch copy of /repo, re-dump MIR, run the named MIR checks"""
import sys, os, subprocess, time
sys.path.insert(0,'/verif/lib')
import mirsmt, miragg, mirblocks, mirflow, mirpaths, mirload, mirquery, mirorder, mirparse, mirgen
sid, checks = sys.argv[1], sys.argv[2]
mut='/tmp/mutsrc'
subprocess.check_call(['rsync','-rlpc','--delete','--exclude','/target','--exclude','.git','/repo/',mut+'/'])
subprocess.check_call(['git','apply','--unsafe-paths','--directory='+mut, f'/verif/seeded/{sid}/patch.diff'], cwd='/')
mir=mirsmt.dump_mir(mut)
ob=mirsmt.Obligations(); a=miragg.Agg(mir,mut,ob)
for name in checks.split(','):
    t0=time.time()
    f=getattr(mirblocks,name,None) or getattr(mirflow,name,None) or getattr(mirpaths,name,None) or getattr(mirload,name,None) or getattr(mirquery,name,None) or getattr(mirorder,name,None) or getattr(mirparse,name,None) or getattr(mirgen,name,None)
    try:
        if f: f(a)
        else: getattr(a,name)()
    except mirsmt.Untranslatable as e:
        print(name,'UNTRANSLATABLE',e); continue
    for o in ob.items:
        if o['status'] in ('proved','witness-ok'): continue
        print(name, o['obligation'], o['status'], o['verdicts'], round(time.time()-t0,1), 'reproduced=',o.get('reproduced'))
        if o.get('replay'): print('   replay:', str(o['replay'].get('mismatches') or o['replay'])[:500])
    print(name,'done', len(ob.items),'obligations')
    ob.items.clear()
