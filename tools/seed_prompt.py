import sys
pid=sys.argv[1][:3]; variant=sys.argv[1][3:]
prop=open(f"/tmp/prop_{pid}.txt").read()
wt=f"/tmp/seed_{pid}{variant}"
print(f"""You are helping to test a verification framework by producing a *seeded defect* in a Rust code base.

Code base: AWS CloudFormation Guard (cfn-guard 3.1.2), a policy-as-code DSL with a nom parser and an evaluator. You have your own scratch git worktree of it at {wt} (work ONLY there; do not touch /repo, and do not read or use anything under /verif). The sandbox is offline: use `cargo ... --offline`; nothing can be downloaded. The toolchain is pinned by rust-toolchain.toml (1.77.2).

The property to break (a semantic property the tool is supposed to satisfy):

{prop}

Task: make a small, realistic change to the source under {wt}/guard/src (the kind of bug a maintainer could plausibly introduce in a refactoring or an "optimisation") that BREAKS this property, while
  (1) the workspace still compiles, and
  (2) the existing test suite still passes completely: run `cd {wt} && HOME=/tmp CARGO_HOME=/root/.cargo RUSTUP_HOME=/root/.rustup cargo test --workspace --no-fail-fast --offline 2>&1 | grep -E '^test result|FAILED' ` (HOME=/tmp is needed because some tests strip $HOME from paths) and confirm there are no failures (the suite has 638 tests; a first build takes a few minutes).
The change must NOT be one that ordinary use would expose at once. It should need something specific to manifest: an unusual input value (a boundary integer, a particular value kind, an empty/one-element collection, a particular operator/polarity combination), a multi-step sequence, or two cooperating sites that each look fine alone. Do not change or delete existing tests.

Then write a demonstration that FAILS with your change and PASSES without it: either a shell script that builds `cargo build --offline -p cfn-guard` and runs `target/debug/cfn-guard validate ...` on small rule/data files and checks the output/exit code, or a Rust test. Verify both directions yourself (with the change: demo fails; after `git apply -R _out/patch.diff`: demo passes; then `git apply _out/patch.diff` again). NEVER use `git stash` (the stash is shared with other worktrees).

Deliver, in the directory {wt}/_out/ (create it):
  - patch.diff : output of `git diff` for your source change only (must apply with `git apply` to a clean checkout of the same commit),
  - demo.sh (or demo files + instructions) : the demonstration, self-contained, taking the repo root as $1,
  - notes.md : which function(s) you changed, what exactly is needed for the defect to manifest, and the commands you ran with their outcome (test suite result, demo with/without).
Leave the worktree with the change applied. Keep the change minimal (a few lines). Report back a short summary: the changed file/function, the trigger, and confirmation of (1), (2) and the demo in both directions.""")
