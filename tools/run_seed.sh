#!/bin/bash
# run_seed.sh <seed-id> [tier] [extra check args]: run the property's check against a scratch worktree of /repo
# with the seeded patch applied (VERIF_REPO points the driver at it; /repo itself is untouched; evidence and
# replays of the experiment go to /verif/.cache/seedruns/<id>/ so that committed evidence is not overwritten).
set -u
ID=$1; TIER=${2:-quick}; shift; shift || true
D=/verif/seeded/$ID
PROP=$(python3 -c "import json;print(json.load(open('$D/meta.json'))['breaks_property'])")
W=/tmp/rs_$ID
OUT=/verif/.cache/seedruns/$ID; mkdir -p $OUT
git -C /repo worktree remove --force $W 2>/dev/null
git -C /repo worktree add -q --detach $W HEAD || exit 9
git -C $W apply $D/patch.diff || { echo "patch does not apply"; git -C /repo worktree remove --force $W; exit 8; }
cd /verif
VERIF_REPO=$W VERIF_EVIDENCE_DIR=$OUT VERIF_REPLAY_DIR=$OUT/replays ./check $PROP --tier $TIER "$@" > $OUT/check.$TIER.log 2>&1
RC=$?
echo "seed=$ID property=$PROP tier=$TIER exit=$RC"
grep -E "^VIOLATION|^INCONCLUSIVE|^\[C" $OUT/check.$TIER.log | cut -c1-300
git -C /repo worktree remove --force $W
exit $RC
