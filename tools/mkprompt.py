#!/usr/bin/env python3
# mkprompt.py <tag e.g. C15h> ... : write /tmp/prompt_<tag>.txt (the text handed to a seeding sub-agent: property text, its own
# scratch worktree, and the places earlier seeds of the property changed - nothing else from /verif) and create /tmp/seed_<tag>.
import sys, json, glob, re, subprocess, os
props={json.loads(l)['id']:json.loads(l) for l in open('/verif/properties.jsonl')}
def mk(tag):
    prop=tag[:3]; d=props[prop]
    open(f'/tmp/prop_{prop}.txt','w').write(f"{prop} — {d['title']}\n\n{d['statement']}\n")
    base=subprocess.check_output([sys.executable,'/verif/tools/seed_prompt.py',tag],text=True)
    avoid=[]
    for m in sorted(glob.glob(f'/verif/seeded/{prop}-*/meta.json')):
        md=json.load(open(m))
        pd=open(os.path.dirname(m)+'/patch.diff').read()
        files=sorted(set(re.findall(r'^\+\+\+ b/guard/src/(\S+)',pd,re.M)))
        avoid.append(f" - {md['needs_to_manifest'][:160].strip()} ({', '.join(files)})")
    tail=("\n\nAdditional constraint for variety: earlier seeded defects for this property already changed the places below; put your change "
          "somewhere ELSE, in a different function and with a different idea:\n"+"\n".join(avoid)+
          "\n\nIf, while reading, you notice that the UNCHANGED code already seems to break the property for some input, say so in a "
          "'baseline observations' paragraph of notes.md (with the input), separately from your seeded change.\n")
    open(f'/tmp/prompt_{tag}.txt','w').write(base+tail)
    wt=f'/tmp/seed_{tag}'
    if not os.path.exists(wt):
        subprocess.check_call(['git','-C','/repo','worktree','add','--detach','-q',wt,'HEAD'])
    print(tag,'ok',len(avoid),'avoid entries')
for t in sys.argv[1:]: mk(t)
