#!/usr/bin/env python3
"""selftest_replays.py [src]: runs every native replay recipe of the MIR checks against the UNCHANGED tree (default: a fresh
copy of /repo) and fails if any of them reports a mismatch or could not run a case. A recipe that is not clean on the
unchanged tree would turn a spurious solver candidate into a false VIOLATION, so this is run after every change to a recipe."""
import inspect, os, subprocess, sys
V = os.path.dirname(os.path.dirname(os.path.abspath(__file__)))
sys.path.insert(0, os.path.join(V, "lib"))
import mirsmt, miragg, mirblocks, mirflow, mirpaths, mirload, mirquery, mirorder, mirparse, mirgen
src = sys.argv[1] if len(sys.argv) > 1 else "/tmp/selftest_src"
if len(sys.argv) <= 1:
    subprocess.check_call(["rsync", "-rlpc", "--delete", "--exclude", "/target", "--exclude", ".git", "/repo/", src + "/"])
a = miragg.Agg("", src, mirsmt.Obligations())
bad = 0
# recipes that DO reproduce on the unchanged tree because they demonstrate a recorded known finding (known_findings.json)
KNOWN = {"mirflow.replay_duplicate_names", "mirgen.replay_rule_name_collision", "mirflow.replay_param_literal_kind"}
recipes = []
for mod in (mirblocks, mirflow, mirpaths, mirload, mirquery, mirorder, mirparse, mirgen):
    for name, f in inspect.getmembers(mod, inspect.isfunction):
        if name.startswith("replay_") and f.__module__ == mod.__name__:
            recipes.append((mod.__name__ + "." + name, f))
for name in ("replay_in_empty", "replay_variable_twice", "replay_binary_not", "replay_rules_file", "replay_when_block", "replay_rule_when", "replay_empty_data_collection", "replay_params_mixed_roots"):
    recipes.append(("miragg.Agg." + name, lambda a_, n=name: getattr(a_, n)({}) if n != "replay_data_inputs" else None))
for name, f in recipes:
    try:
        sig = inspect.signature(f)
        r = f(a) if len(sig.parameters) == 1 else f(a, *[p.default for p in list(sig.parameters.values())[1:]])
    except TypeError as e:
        print("SKIP", name, e)
        continue
    rep = bool(r.get("reproduced"))
    unran = [c for c in r.get("cases", []) if isinstance(c, dict) and c.get("observed") is None] if isinstance(r.get("cases"), list) else []
    note = r.get("note")
    status = "CLEAN" if not rep and not unran and not note else "NOT-CLEAN"
    if name in KNOWN:
        status = "KNOWN-FINDING" if rep else "NOT-CLEAN (known finding no longer reproduces: update known_findings.json)"
    bad += status not in ("CLEAN", "KNOWN-FINDING")
    print(status, name, (str(r.get("mismatches"))[:200] if rep else ""), (f"{len(unran)} cases did not run" if unran else ""), note or "")
sys.exit(1 if bad else 0)
