#!/bin/bash
# Offline setup: vendor the repo's dependency sources (from the local cargo cache) so that
# Kani's own cargo can resolve Cargo.lock without a registry index.
set -euo pipefail
cd "$(dirname "$0")"
V=/verif/.cache/vendor
mkdir -p /verif/.cache
if [ ! -f "$V/.complete" ]; then
  rm -rf "$V"
  (cd /repo && CARGO_NET_OFFLINE=true cargo vendor --offline --respect-source-config --versioned-dirs "$V" >/verif/.cache/vendor.log 2>&1)
  touch "$V/.complete"
fi
echo "setup ok: $(ls $V | wc -l) vendored crates"
