#!/bin/sh
exit 0
